#!/usr/bin/env python3
"""Structural obligation `actions:generated-equals-grammar`: the k-th action body of jsonpath.peg and the body of
`case ruleAction<k>:` in the checked-in generated parser jsonpath.peg.go are the same Go text (modulo white space).
Mechanical, no solver.  usage: actions_check.py <repo>  -> JSON on stdout."""
import json, re, sys, os


def peg_actions(src):
    """action blocks {...} of the grammar in textual order; literals, classes and raw strings are skipped."""
    k = src.index("expression <-") if "expression <-" in src else 0
    out, i, n = [], k, len(src)
    while i < n:
        c = src[i]
        if c == "'" or c == '"':
            q = c
            i += 1
            while src[i] != q:
                i += 2 if src[i] == "\\" else 1
            i += 1
        elif c == "[":
            i += 1
            while src[i] != "]":
                i += 2 if src[i] == "\\" else 1
            i += 1
        elif c == "{":
            depth, j = 0, i
            while True:
                ch = src[j]
                if ch == "`":
                    j = src.index("`", j + 1)
                elif ch == '"':
                    j += 1
                    while src[j] != '"':
                        j += 2 if src[j] == "\\" else 1
                elif ch == "{":
                    depth += 1
                elif ch == "}":
                    depth -= 1
                    if depth == 0:
                        break
                j += 1
            out.append(src[i + 1:j])
            i = j + 1
        else:
            i += 1
    return out


def go_actions(src):
    out = {}
    for m in re.finditer(r"case ruleAction(\d+):\n(.*?)(?=\n\t\tcase rule|\n\t\t}\n)", src, re.S):
        out[int(m.group(1))] = m.group(2)
    return out


def norm(t):
    return re.sub(r"\s+", " ", t).strip()


def main(repo):
    peg = open(os.path.join(repo, "jsonpath.peg")).read()
    gen = open(os.path.join(repo, "jsonpath.peg.go")).read()
    pa, ga = peg_actions(peg), go_actions(gen)
    bad = []
    if len(pa) != len(ga):
        bad.append("the grammar has %d actions, the generated parser %d" % (len(pa), len(ga)))
    for k, body in enumerate(pa):
        if k in ga and norm(ga[k]) != norm(body):
            bad.append("action %d differs: grammar `%s` / generated `%s`" % (k, norm(body)[:160], norm(ga[k])[:160]))
    print(json.dumps({"actions": len(pa), "generated": len(ga), "differences": bad}))
    return 0


if __name__ == "__main__":
    sys.exit(main(sys.argv[1] if len(sys.argv) > 1 else "/repo"))
