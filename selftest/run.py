#!/usr/bin/env python3
"""Must-fail corpus: apply each patch to a scratch copy of /repo (outside /repo and /verif), run the
property's check against it and expect the named obligation to be reported as a VIOLATION.
usage: selftest/run.py [-j N] [-from INDEX] [case-substring | property]"""
import json, os, subprocess, sys, tempfile, shutil
from concurrent.futures import ThreadPoolExecutor

V = os.path.dirname(os.path.dirname(os.path.abspath(__file__)))
cases = json.load(open(os.environ.get("VERIF_CASES") or os.path.join(V, "selftest", "cases.json")))
args = sys.argv[1:]
par = 1
if args and args[0] == "-j":
    par = int(args[1])
    args = args[2:]
start = 0
if args and args[0] == "-from":
    start = int(args[1])
    args = args[2:]
flt = args[0] if args else ""


def run_case(c):
    tmp = tempfile.mkdtemp(prefix="verif-selftest-")
    try:
        subprocess.run(["rsync", "-a", "--exclude", ".git", "/repo/", tmp + "/"], check=True)
        pth = os.path.join(V, "selftest", "patches", c["patch"])
        if c["patch"].startswith("seeded:"):
            pth = os.path.join(V, "seeded", c["patch"][7:], "patch.diff")
        r = subprocess.run(["patch", "-p1", "-s", "-i", pth], cwd=tmp, capture_output=True, text=True, errors="replace")
        if r.returncode != 0:
            return False, "PATCH-FAILED %s %s %s" % (c["patch"], r.stdout, r.stderr)
        env = dict(os.environ, VERIF_REPO=tmp, VERIF_EVIDENCE_DIR=os.path.join(tmp, ".evidence"))
        if par > 1:
            env["VERIF_JOBS"] = "3"
        r = subprocess.run([os.path.join(V, "check"), c["property"], "quick"], cwd=V, env=env, capture_output=True, text=True, errors="replace")
        out = r.stdout
        viol = [l for l in out.splitlines() if l.startswith("VIOLATION")]
        named = c["expect"] in out
        repro = any("no-failing-input-found" not in l for l in viol)
        ok = r.returncode == 1 and bool(viol) and named and (repro or not c.get("reproduced"))
        msg = "%-4s %-40s %-4s exit=%d violations=%d named=%s reproduced=%s" % (
            "ok" if ok else "MISS", c["patch"], c["property"], r.returncode, len(viol), named, repro)
        if not ok:
            msg += "\n" + out[-1500:]
        return ok, msg
    finally:
        shutil.rmtree(tmp, ignore_errors=True)


todo = [c for c in cases[start:] if not flt or flt in c["patch"] or flt == c["property"]]
bad = 0
with ThreadPoolExecutor(max_workers=par) as ex:
    for ok, msg in ex.map(run_case, todo):
        print(msg)
        sys.stdout.flush()
        if not ok:
            bad += 1
sys.exit(1 if bad else 0)
