#!/usr/bin/env python3
"""Must-fail corpus: apply each patch to a scratch copy of /repo (outside /repo and /verif), run the
property's check against it and expect the named obligation to be reported as a VIOLATION.
usage: selftest/run.py [case-substring]"""
import json, os, subprocess, sys, tempfile, shutil
V = os.path.dirname(os.path.dirname(os.path.abspath(__file__)))
cases = json.load(open(os.path.join(V, "selftest", "cases.json")))
flt = sys.argv[1] if len(sys.argv) > 1 else ""
bad = 0
for c in cases:
    if flt and flt not in c["patch"] and flt != c["property"]:
        continue
    tmp = tempfile.mkdtemp(prefix="verif-selftest-")
    try:
        subprocess.run(["rsync", "-a", "--exclude", ".git", "/repo/", tmp + "/"], check=True)
        pth = os.path.join(V, "selftest", "patches", c["patch"])
        if c["patch"].startswith("seeded:"):
            pth = os.path.join(V, "seeded", c["patch"][7:], "patch.diff")
        r = subprocess.run(["patch", "-p1", "-s", "-i", pth], cwd=tmp, capture_output=True, text=True, errors="replace")
        if r.returncode != 0:
            print("PATCH-FAILED", c["patch"], r.stdout, r.stderr)
            bad += 1
            continue
        env = dict(os.environ, VERIF_REPO=tmp, VERIF_EVIDENCE_DIR=os.path.join(tmp, ".evidence"))
        r = subprocess.run([os.path.join(V, "check"), c["property"], "quick"], cwd=V, env=env, capture_output=True, text=True, errors="replace")
        out = r.stdout
        viol = [l for l in out.splitlines() if l.startswith("VIOLATION")]
        named = c["expect"] in out
        repro = any("no-failing-input-found" not in l for l in viol)
        ok = r.returncode == 1 and viol and named and (repro or not c.get("reproduced"))
        sys.stdout.flush(); print("%-4s %-40s %-4s exit=%d violations=%d named=%s reproduced=%s" % ("ok" if ok else "MISS", c["patch"], c["property"], r.returncode, len(viol), named, repro))
        if not ok:
            bad += 1
            print(out[-1500:])
    finally:
        shutil.rmtree(tmp, ignore_errors=True)
sys.exit(1 if bad else 0)
