#!/bin/bash
# replaycheck.sh <property> [patch.diff]: run the property's replay/bounded harness alone on a scratch copy of /repo (optionally patched)
set -u
pid=$1; pf=${2:-}
export GOFLAGS=-mod=mod GOPROXY=off GOSUMDB=off GOTOOLCHAIN=local
sc=$(mktemp -d /tmp/verif-rc-XXXXXX)
trap 'rm -rf "$sc"' EXIT
rsync -a --exclude .git /repo/ "$sc/"
if [ -n "$pf" ]; then (cd "$sc" && patch -p1 -s < "$pf") || { echo "PATCH FAILED"; exit 3; }; fi
echo "{\"property\":\"$pid\",\"obligation\":\"manual\",\"kind\":\"post\",\"fn\":\"-\",\"values\":null}" > "$sc/.rec.json"
cd /verif && VERIF_REPO="$sc" ./check --replay "$sc/.rec.json" | grep -E 'REPRODUCED|^ok|did not reproduce|replay reproduced|panic' | head -5
