#!/usr/bin/env python3
"""Must-pass corpus: behaviour-preserving changes (equivalent rewrites, refactors).  Each patch under selftest/benign/ is
applied to a scratch copy of /repo (outside /repo and /verif); the listed checks must exit 0.  An entry with
"accepted_alarm" documents a contract that is knowingly sensitive to that rewrite (reported, not counted as failure).
usage: selftest/benign.py [substring]"""
import json, os, subprocess, sys, tempfile, shutil
V = os.path.dirname(os.path.dirname(os.path.abspath(__file__)))
cases = json.load(open(os.path.join(V, "selftest", "benign.json")))
flt = sys.argv[1] if len(sys.argv) > 1 else ""
bad = 0
for c in cases:
    if flt and flt not in c["patch"]:
        continue
    tmp = tempfile.mkdtemp(prefix="verif-benign-")
    try:
        subprocess.run(["rsync", "-a", "--exclude", ".git", "/repo/", tmp + "/"], check=True)
        r = subprocess.run(["patch", "-p1", "-s", "-i", os.path.join(V, "selftest", "benign", c["patch"])], cwd=tmp, capture_output=True, text=True, errors="replace")
        if r.returncode != 0:
            print("PATCH-FAILED", c["patch"], r.stdout, r.stderr); bad += 1; continue
        env = dict(os.environ, GOFLAGS="-mod=mod", GOPROXY="off", GOSUMDB="off", GOTOOLCHAIN="local")
        t = subprocess.run(["go", "test", "-count=1", "./..."], cwd=tmp, env=env, capture_output=True, text=True, errors="replace")
        if t.returncode != 0:
            print("SUITE-FAILS", c["patch"]); bad += 1; continue
        for pid in c["properties"]:
            env2 = dict(os.environ, VERIF_REPO=tmp, VERIF_EVIDENCE_DIR=os.path.join(tmp, ".evidence"))
            r = subprocess.run([os.path.join(V, "check"), pid, "quick"], cwd=V, env=env2, capture_output=True, text=True, errors="replace")
            ok = r.returncode == 0
            tag = "ok" if ok else ("ACCEPTED-ALARM" if pid in c.get("accepted_alarm", []) else "FALSE-ALARM")
            print("%-14s %-50s %-4s exit=%d" % (tag, c["patch"], pid, r.returncode))
            if tag == "FALSE-ALARM":
                bad += 1
                print(r.stdout[-1200:])
    finally:
        shutil.rmtree(tmp, ignore_errors=True)
sys.exit(1 if bad else 0)
