#!/bin/bash
# benignfast.sh <patch.diff> : quick look at a behaviour-preserving change - suite, then govc on every function under
# contract (whole tree, one run, no bounded harness).  Scratch copy outside /repo and /verif, removed afterwards.
set -u
export GOFLAGS=-mod=mod GOPROXY=off GOSUMDB=off GOTOOLCHAIN=local
sc=$(mktemp -d /tmp/verif-bfast-XXXXXX)
trap 'rm -rf "$sc"' EXIT
rsync -a --exclude .git /repo/ "$sc/"
(cd "$sc" && patch -p1 -s < "$1") || { echo PATCH-FAILED; exit 3; }
(cd "$sc" && go test -count=1 ./... 2>&1 | tail -1)
/verif/bin/govc -repo "$sc" -json "$sc/.r.json" -timeout 30 -jobs 10 2>&1 | grep -E "^UNKNOWN|^FAILED|^ERROR|^VACUOUS|^govc:" | cut -c1-260 | head -${2:-12}
