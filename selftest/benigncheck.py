#!/usr/bin/env python3
"""benigncheck.py <patch.diff> : apply a behaviour-preserving change to a scratch copy of /repo (outside /repo and /verif),
run the suite, then every check whose functions under contract live in a changed file; report the alarms."""
import json, os, re, subprocess, sys, tempfile, shutil, glob
V = os.path.dirname(os.path.dirname(os.path.abspath(__file__)))
patch = os.path.abspath(sys.argv[1])
files = set(re.findall(r"^\+\+\+ b/(\S+)", open(patch).read(), re.M))
props = []
for f in sorted(glob.glob(os.path.join(V, "evidence", "*.json"))):
    e = json.load(open(f))
    at = set(x.get("at", "").split(":")[0] for x in e["coverage"].get("functions_under_contract", []))
    if files & at:
        props.append(e["property_id"])
tmp = tempfile.mkdtemp(prefix="verif-benign-")
try:
    subprocess.run(["rsync", "-a", "--exclude", ".git", "/repo/", tmp + "/"], check=True)
    r = subprocess.run(["patch", "-p1", "-s", "-i", patch], cwd=tmp, capture_output=True, text=True)
    if r.returncode:
        print("PATCH-FAILED", r.stdout, r.stderr); sys.exit(3)
    env = dict(os.environ, GOFLAGS="-mod=mod", GOPROXY="off", GOSUMDB="off", GOTOOLCHAIN="local")
    t = subprocess.run(["go", "test", "-count=1", "./..."], cwd=tmp, env=env, capture_output=True, text=True)
    print("suite:", "ok" if t.returncode == 0 else "FAILS")
    print("files:", sorted(files), "checks:", props)
    for pid in props:
        env2 = dict(os.environ, VERIF_REPO=tmp, VERIF_EVIDENCE_DIR=os.path.join(tmp, ".evidence"), VERIF_JOBS="5")
        r = subprocess.run([os.path.join(V, "check"), pid, "quick"], cwd=V, env=env2, capture_output=True, text=True, errors="replace")
        lines = [l for l in r.stdout.splitlines() if l.startswith("VIOLATION") or l.startswith("  obligation") or l.startswith("check ")]
        print("%s exit=%d %s" % (pid, r.returncode, "ALARM" if r.returncode else "quiet"))
        for l in lines[:9]:
            print("   ", l[:260])
finally:
    shutil.rmtree(tmp, ignore_errors=True)
