#!/bin/bash
# seedcheck.sh <property> <seed-dir> : confirm a seeded change (compiles, suite passes, demo fails with / passes without),
# then run the property's check against it.  Scratch copy outside /repo and /verif, removed afterwards.
set -u
pid=$1; sd=$2
export GOFLAGS=-mod=mod GOPROXY=off GOSUMDB=off GOTOOLCHAIN=local
sc=$(mktemp -d /tmp/verif-seed-XXXXXX)
trap 'rm -rf "$sc"' EXIT
rsync -a --exclude .git /repo/ "$sc/"
cd "$sc"
cp "$sd/demo_test.go" zz_seed_demo_test.go
echo "== demo on unmodified tree (must pass)"; go test -count=1 -timeout 120s -run 'TestSeedDemo' . 2>&1 | tail -2
patch -p1 -s < "$sd/patch.diff" || { echo "PATCH FAILED"; exit 3; }
echo "== demo with the change (must fail)"; go test -count=1 -timeout 120s -run 'TestSeedDemo' . 2>&1 | tail -3
rm zz_seed_demo_test.go
echo "== suite with the change (must pass)"; go test -count=1 ./... 2>&1 | tail -2
cd /verif
shift 2
for p in $pid "$@"; do
  echo "== check $p against the change"; VERIF_REPO="$sc" VERIF_EVIDENCE_DIR="$sc/.ev" ./check $p quick 2>&1 | grep -E "^VIOLATION|^  obligation|^check |KNOWN" | head -12
done
