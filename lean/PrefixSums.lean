/-
Arithmetic facts about sums of non-negative terms that the contract file states as SMT axioms
(`seg*`, the all-false filter, `CSm`/`CSl` bounds, `SN >= 0`).  They are consequences of the recursion
equations alone; this file proves them once and for all, for arbitrary step functions.
Checked with Lean 4 / Mathlib (`lean PrefixSums.lean`); no `sorry`, no extra axioms.
-/
import Mathlib.Tactic

namespace VerifSums

/-- prefix sums: `S 0 = 0`, `S (j+1) = S j + f j` (the shape of sumL, sumM, sumF, sumX, sumI, sumU, SN). -/
def S (f : ℕ → ℕ) : ℕ → ℕ
  | 0 => 0
  | j + 1 => S f j + f j

theorem S_mono (f : ℕ → ℕ) : ∀ {a b : ℕ}, a ≤ b → S f a ≤ S f b := by
  intro a b h
  induction h with
  | refl => exact le_refl _
  | step _ ih => exact le_trans ih (Nat.le_add_right _ _)

/-- every position below the total lies in exactly one segment (axioms segL, segM, segF, segX, segI, segU). -/
theorem seg_exists (f : ℕ → ℕ) : ∀ (m x : ℕ), x < S f m → ∃ t, t < m ∧ S f t ≤ x ∧ x < S f (t + 1) := by
  intro m
  induction m with
  | zero => intro x h; simp [S] at h
  | succ m ih =>
    intro x h
    by_cases hx : x < S f m
    · obtain ⟨t, ht, h1, h2⟩ := ih x hx
      exact ⟨t, Nat.lt_succ_of_lt ht, h1, h2⟩
    · exact ⟨m, Nat.lt_succ_self m, Nat.le_of_not_lt hx, h⟩

theorem seg_unique (f : ℕ → ℕ) (x t u : ℕ)
    (ht : S f t ≤ x ∧ x < S f (t + 1)) (hu : S f u ≤ x ∧ x < S f (u + 1)) : t = u := by
  by_contra hne
  rcases Nat.lt_or_gt_of_ne hne with h | h
  · have h3 : S f (t + 1) ≤ S f u := S_mono f (by omega)
    omega
  · have h3 : S f (u + 1) ≤ S f t := S_mono f (by omega)
    omega

/-- a sum whose steps are all zero is zero (axiom: an all-false filter selects nothing). -/
theorem S_zero (f : ℕ → ℕ) : ∀ m, (∀ j, j < m → f j = 0) → S f m = 0 := by
  intro m
  induction m with
  | zero => intro _; rfl
  | succ m ih =>
    intro h
    have h1 := ih (fun j hj => h j (Nat.lt_succ_of_lt hj))
    have h2 := h m (Nat.lt_succ_self m)
    simp [S, h1, h2]

/-- suffix sums over `t .. m-1`: `C m = 0`, `C t = C (t+1) + g t` (the shape of CSm / CSl), as a total from the end. -/
def C (g : ℕ → ℕ) (m : ℕ) : ℕ → ℕ := fun t => S (fun i => g (m - 1 - i)) (m - t)

theorem C_end (g : ℕ → ℕ) (m : ℕ) : C g m m = 0 := by simp [C, S]

theorem C_step (g : ℕ → ℕ) (m t : ℕ) (h : t < m) : C g m t = C g m (t + 1) + g t := by
  unfold C
  have e : m - t = (m - (t + 1)) + 1 := by omega
  rw [e, S]
  have : m - 1 - (m - (t + 1)) = t := by omega
  rw [this]

/-- a suffix sum never exceeds the whole (axiom on CSm / CSl), and is non-negative (trivially, in ℕ). -/
theorem C_le_total (g : ℕ → ℕ) (m t : ℕ) (_h : t ≤ m) : C g m t ≤ C g m 0 := by
  unfold C
  exact S_mono _ (by omega)

end VerifSums
