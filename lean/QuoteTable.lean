/-
The single-quote re-escaping table of `unescapeSingleQuotedString` (contract functions sqEsc / sqPos / sqW) on a text
that contains no quote and no backslash: nothing is ever "escaped" and the output position after k input bytes is k + 1
(the opening quote).  This is the induction behind the SMT axiom `sqPlainPos` used by lemma `quotes` (C18: for such a
name `'name'` and `"name"` denote the same key).  The recursion equations are the ones the contract file asserts:
  esc 0 = false, pos 0 = 1, esc (i+1) = (¬ esc i ∧ b i = 92), pos (i+1) = pos i + W i.
Checked with Lean 4 / Mathlib (`lean QuoteTable.lean`); no `sorry`, no extra axioms.
-/
import Mathlib.Tactic

namespace VerifQuote

/-- width of the output cell of input byte `c` (sqW): escaped `'` -> 1, other escaped byte -> 2, `\` -> 0, `"` -> 2, else 1 -/
def W (esc : Bool) (c : ℕ) : ℕ :=
  if esc then (if c = 39 then 1 else 2) else (if c = 92 then 0 else (if c = 34 then 2 else 1))

def esc (b : ℕ → ℕ) : ℕ → Bool
  | 0 => false
  | i + 1 => (!esc b i) && decide (b i = 92)

def pos (b : ℕ → ℕ) : ℕ → ℕ
  | 0 => 1
  | i + 1 => pos b i + W (esc b i) (b i)

theorem plain_pos (b : ℕ → ℕ) :
    ∀ k, (∀ j, j < k → b j ≠ 92 ∧ b j ≠ 34 ∧ b j ≠ 39) → esc b k = false ∧ pos b k = k + 1 := by
  intro k
  induction k with
  | zero => intro _; exact ⟨rfl, rfl⟩
  | succ k ih =>
    intro h
    obtain ⟨he, hp⟩ := ih (fun j hj => h j (Nat.lt_succ_of_lt hj))
    obtain ⟨h92, h34, _⟩ := h k (Nat.lt_succ_self k)
    constructor
    · simp [esc, h92]
    · simp [pos, W, he, hp, h92, h34]

end VerifQuote
