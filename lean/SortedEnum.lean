/-
C07 / C01: the bridge facts about sorted key lists that the contract file assumes (`assume` clause of
getSortedKeys, `skey`): a strictly ascending list of |D| elements of a finite set D
 (1) contains every element of D (the "onto" counting lemma), and
 (2) is THE ascending enumeration of D (uniqueness), so position t holds the t-th smallest key.
getSortedKeys is proved (by govc) to return a strictly ascending list of len(map) keys of the map.
Checked with Lean 4 / Mathlib; no `sorry`.
-/
import Mathlib.Data.Finset.Sort
import Mathlib.Tactic

namespace VerifSorted

variable {α : Type} [LinearOrder α]

theorem toFinset_eq_of_sorted (s : Finset α) (l : List α)
    (hs : l.SortedLT) (hmem : ∀ x ∈ l, x ∈ s) (hlen : l.length = s.card) :
    l.toFinset = s := by
  have hnd : l.Nodup := hs.nodup
  apply Finset.eq_of_subset_of_card_le
  · intro x hx
    exact hmem x (List.mem_toFinset.mp hx)
  · rw [List.toFinset_card_of_nodup hnd, hlen]

/-- (1) onto: every element of D occurs in the list -/
theorem onto (s : Finset α) (l : List α)
    (hs : l.SortedLT) (hmem : ∀ x ∈ l, x ∈ s) (hlen : l.length = s.card) :
    ∀ x ∈ s, x ∈ l := by
  intro x hx
  have h := toFinset_eq_of_sorted s l hs hmem hlen
  rw [← h] at hx
  exact List.mem_toFinset.mp hx

/-- (2) uniqueness: the list is the sorted enumeration of D -/
theorem eq_sort (s : Finset α) (l : List α)
    (hs : l.SortedLT) (hmem : ∀ x ∈ l, x ∈ s) (hlen : l.length = s.card) :
    l = s.sort (· ≤ ·) := by
  have h := toFinset_eq_of_sorted s l hs hmem hlen
  apply List.SortedLT.eq_of_mem_iff hs (Finset.sortedLT_sort s)
  intro a
  rw [Finset.mem_sort, ← h, List.mem_toFinset]

end VerifSorted
