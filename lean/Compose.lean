/-
C08: steps compose.  The result-list equations of the contract file are all in continuation form:
a step selects values from the current value (`sel`, a list in the order the property prescribes) and the
continuation of its node - the rest of the path, `Kn/Kv` in the contracts - is applied to each of them, the
lists being concatenated.  For such an evaluator, "P followed by Q" is Q applied to each result of P; the
induction over P that the SMT side does not do is done here.
Checked with Lean 4 / Mathlib; no `sorry`.
-/
import Mathlib.Tactic

namespace VerifCompose

variable {V : Type}

/-- a path is a list of steps; a step maps a value to the list of values it selects -/
def eval : List (V → List V) → V → List V
  | [], v => [v]
  | s :: rest, v => (s v).flatMap (eval rest)

theorem eval_append (P Q : List (V → List V)) (v : V) :
    eval (P ++ Q) v = (eval P v).flatMap (eval Q) := by
  induction P generalizing v with
  | nil => simp [eval]
  | cons s rest ih =>
    simp only [List.cons_append, eval, List.flatMap_assoc]
    congr 1
    funext w
    exact ih w

/-- a union / multi-name step is the concatenation of its single selectors, each followed by the rest -/
theorem eval_union (s t : V → List V) (rest : List (V → List V)) (v : V) :
    eval ((fun w => s w ++ t w) :: rest) v = eval (s :: rest) v ++ eval (t :: rest) v := by
  simp [eval, List.flatMap_append]

end VerifCompose
