#!/usr/bin/env python3
"""Derive, mechanically from the action text of jsonpath.peg, the stack-shape assumption of every action:
the k values it pops must be there and have the asserted Go types (first pop = top of the stack).
Prints `case ruleActionN assume ...` lines for the `cases (*pegJSONPathParser).Execute` block."""
import re, sys, os
sys.path.insert(0, os.path.dirname(os.path.abspath(__file__)))
from actions_check import peg_actions

NODEISH = {"syntaxNode"}
repo = sys.argv[1] if len(sys.argv) > 1 else "/repo"
acts = peg_actions(open(os.path.join(repo, "jsonpath.peg")).read())
P = "p.jsonPathParser.params"
for n, body in enumerate(acts):
    pops = re.findall(r"p\.pop\(\)(?:\.\(([^)]+)\))?", body)
    conds = ["wf(%s)" % P]
    if pops:
        conds.append("len(%s) >= %d" % (P, len(pops)))
    for d, t in enumerate(pops):
        e = "stk(p, %d)" % d
        if not t:
            continue
        if t in NODEISH:
            conds.append("nodeWF(%s)" % e)
        elif t.startswith("*"):
            conds.append("isType(%s, %s) && asType(%s, %s) != nil" % (e, t, e, t))
        else:
            conds.append("isType(%s, %s)" % (e, t))
    print("//@   case ruleAction%d assume %s" % (n, " && ".join(conds)))
