#!/usr/bin/env python3
"""Regenerate MANIFEST.json from props.json (claimed checks) and na.json (not claimed, with reasons)."""
import json, os, subprocess
V = os.path.dirname(os.path.abspath(__file__))
props = json.load(open(os.path.join(V, "props.json")))
na = json.load(open(os.path.join(V, "na.json")))
allp = [json.loads(l)["id"] for l in open(os.path.join(V, "properties.jsonl"))]
hook_commits = subprocess.run(["git", "-C", "/repo", "log", "--format=%H", "--", "zz_verif_contracts.go"],
                              capture_output=True, text=True).stdout.split()
checks = []
for pid in allp:
    if pid not in props["properties"]:
        continue
    s = props["properties"][pid]
    checks.append({
        "property_id": pid,
        "quick_cmd": "./check %s quick" % pid,
        "thorough_cmd": "./check %s thorough" % pid,
        "evidence_file": "/verif/evidence/%s.json" % pid,
        "replay_cmd_template": "./check --replay {path}",
        "engine": "govc",
        "level_claimed": {"category": s.get("level", "proof"), "text": s["level_text"], "design_ref": s.get("design_ref", "DESIGN.md section 4, " + pid)},
        "level_note": s["level_note"],
        "technique": s.get("technique", "contract-based deductive verification: weakest-precondition style VCs generated from go/ssa of the real code, discharged by z3/cvc5"),
    })
man = {
    "version": 1,
    "setup_cmd": "cd /verif/govc && GOFLAGS=-mod=vendor GOPROXY=off GOSUMDB=off GOTOOLCHAIN=local go build -o ../bin/govc .",
    "hooks": {
        "guard": "verif",
        "enable": "go build tag: -tags verif (the only hook is the comment-only contract file zz_verif_contracts.go)",
        "baseline_off_cmd": "cd /repo && GOFLAGS=-mod=mod GOPROXY=off GOSUMDB=off GOTOOLCHAIN=local go test -json -vet=off -count=1 -timeout 25m ./...",
        "source_commits": list(reversed(hook_commits)),
        "add_only": True,
    },
    "engines": [{
        "name": "govc", "path": "/verif/govc",
        "serves_properties": [c["property_id"] for c in checks],
        "kind_free_text": "deductive verifier written for this task: loads /repo with go/packages (tag verif), builds go/ssa, reads Gobra-style contracts from the comment-only file zz_verif_contracts.go, generates one SMT-LIB obligation per safety condition / contract clause / loop invariant by forward symbolic execution of the SSA with calls replaced by callee contracts, races z3-new, z3 and cvc5 on each; failed obligations are replayed on the real code through `go test -overlay` harnesses under /verif/replay",
    }],
    "checks": checks,
    "not_applicable": [{"property_id": p, "reason": na[p]} for p in allp if p not in props["properties"]],
    "notes": "Known findings and fix: commits are listed in /verif/known_findings.json; ./check prints KNOWN-FINDING lines for listed findings. VERIF_REPO=<dir> points a check at another copy of the repository (selftest only).",
}
missing = [p for p in allp if p not in props["properties"] and p not in na]
assert not missing, missing
json.dump(man, open(os.path.join(V, "MANIFEST.json"), "w"), indent=1)
print("MANIFEST.json: %d checks, %d not applicable" % (len(checks), len(man["not_applicable"])))
