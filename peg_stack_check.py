#!/usr/bin/env python3
"""Structural obligation `grammar:stack-effects` (C02): the composition of the actions' stack effects along jsonpath.peg.

Every action pops values off the parser's value stack with unchecked type assertions (`p.pop().(T)`) and pushes
values through the constructors.  This checker interprets the grammar abstractly: the abstract stack is a list of
item types (`T`, or `T*` for the items a repetition pushed) with frame markers for saveParams/loadParams; it walks
every rule from the start rule, composing effects through sequences, ordered choices (all alternatives must leave
the same abstract stack), repetitions (the body must be neutral or purely pushing) and rule references (memoised on
the abstract stack at the call, recursion cut by the declared result of the rule), and at every action checks that
the values the action pops are on the abstract stack with types that satisfy the assertions.  That is exactly the
type part of the `case ruleActionN assume ...` clauses of the contract file, which are therefore derived, not assumed.

Mechanical, no solver.  usage: peg_stack_check.py <repo>  -> JSON on stdout.
"""
import json, os, re, sys

sys.setrecursionlimit(10000)

# ---------------------------------------------------------------- PEG parser (same dialect as the Go interpreter)


class P:
    def __init__(self, src):
        self.s, self.i = src, 0

    def skip(self):
        while self.i < len(self.s):
            c = self.s[self.i]
            if c in " \t\r\n":
                self.i += 1
            elif c == "#":
                while self.i < len(self.s) and self.s[self.i] != "\n":
                    self.i += 1
            else:
                break

    def ident(self):
        m = re.match(r"[A-Za-z_][A-Za-z_0-9]*", self.s[self.i:])
        if not m:
            return ""
        self.i += m.end()
        return m.group(0)

    def rule_start(self):
        save = self.i
        ok = bool(self.ident())
        self.skip()
        ok = ok and self.s.startswith("<-", self.i)
        self.i = save
        return ok

    def alt(self):
        kids = [self.seq()]
        while True:
            self.skip()
            if self.i < len(self.s) and self.s[self.i] == "/":
                self.i += 1
                kids.append(self.seq())
            else:
                break
        return kids[0] if len(kids) == 1 else ("alt", kids)

    def seq(self):
        kids = []
        while True:
            self.skip()
            if self.i >= len(self.s) or self.s[self.i] in "/)>" or self.rule_start():
                break
            kids.append(self.prefix())
        return ("seq", kids)

    def prefix(self):
        self.skip()
        c = self.s[self.i]
        if c in "!&":
            self.i += 1
            return ("pred", self.prefix())
        n = self.primary()
        while True:
            save = self.i
            self.skip()
            if self.i < len(self.s) and self.s[self.i] in "*+?":
                n = ({"*": "star", "+": "plus", "?": "opt"}[self.s[self.i]], n)
                self.i += 1
            else:
                self.i = save
                break
        return n

    def primary(self):
        self.skip()
        c = self.s[self.i]
        if c == "(":
            self.i += 1
            n = self.alt()
            self.skip()
            self.i += 1
            return n
        if c == "<":
            self.i += 1
            n = self.alt()
            self.skip()
            self.i += 1
            return ("cap", n)
        if c == "{":
            depth, j = 0, self.i
            while True:
                ch = self.s[j]
                if ch == "`":
                    j = self.s.index("`", j + 1)
                elif ch == '"':
                    j += 1
                    while self.s[j] != '"':
                        j += 2 if self.s[j] == "\\" else 1
                elif ch == "{":
                    depth += 1
                elif ch == "}":
                    depth -= 1
                    if depth == 0:
                        break
                j += 1
            body = self.s[self.i + 1:j]
            self.i = j + 1
            return ("action", body)
        if c in "'\"":
            q = c
            self.i += 1
            while self.s[self.i] != q:
                self.i += 2 if self.s[self.i] == "\\" else 1
            self.i += 1
            return ("lex",)
        if c == "[":
            self.i += 1
            while self.s[self.i] != "]":
                self.i += 2 if self.s[self.i] == "\\" else 1
            self.i += 1
            return ("lex",)
        if c == ".":
            self.i += 1
            return ("lex",)
        name = self.ident()
        if not name:
            raise SyntaxError("peg: unexpected %r at %d" % (c, self.i))
        return ("ref", name)


src_of = {}  # rule name -> source text of its right-hand side


def load_grammar(path):
    src = open(path).read()
    src = src[src.index("expression <-"):]
    p = P(src)
    rules = {}
    while True:
        p.skip()
        if p.i >= len(p.s):
            break
        name = p.ident()
        p.skip()
        p.i += 2
        start = p.i
        rules[name] = p.alt()
        src_of[name] = p.s[start:p.i]
    return rules


# ---------------------------------------------------------------- types

NODE, QUERY, SUB, IDX, UNIONQ, CP, JPP, STR, F64, BOOL, NIL, MARK = (
    "syntaxNode", "syntaxQuery", "syntaxSubscript", "*syntaxIndexSubscript", "*syntaxUnionQualifier",
    "*syntaxBasicCompareParameter", "syntaxQueryJSONPathParameter", "string", "float64", "bool", "nil", "#frame")
SUPER = {UNIONQ: {NODE}, IDX: {SUB}, JPP: {QUERY}}
PUSHES = {  # constructor -> what it pushes
    "pushRootIdentifier": NODE, "pushCurrentRootIdentifier": NODE, "pushChildSingleIdentifier": NODE,
    "pushChildMultiIdentifier": NODE, "pushChildWildcardIdentifier": NODE, "pushRecursiveChildIdentifier": NODE,
    "pushFunction": NODE, "pushUnionQualifier": UNIONQ, "pushFilterQualifier": NODE,
    "pushSlicePositiveStepSubscript": SUB, "pushSliceNegativeStepSubscript": SUB, "pushIndexSubscript": IDX,
    "pushOmittedIndexSubscript": IDX, "pushWildcardSubscript": SUB, "pushLogicalOr": QUERY, "pushLogicalAnd": QUERY,
    "pushLogicalNot": QUERY, "pushCompareEQ": QUERY, "pushCompareNE": QUERY, "pushCompareGE": QUERY,
    "pushCompareGT": QUERY, "pushCompareLE": QUERY, "pushCompareLT": QUERY, "pushCompareRegex": QUERY,
    "pushBasicCompareParameter": CP, "pushCompareParameterLiteral": CP, "pushCompareParameterRoot": JPP,
    "pushCompareParameterCurrentRoot": JPP,
}


def sat(have, want):
    """does an item of abstract type `have` satisfy the assertion .(want)?  (nil satisfies no assertion)"""
    return want == "" or have == want or want in SUPER.get(have, ())


class Fail(Exception):
    pass


class Checker:
    def __init__(self, rules):
        self.rules = rules
        self.memo = {}
        self.active = {}
        self.action_no = {}
        self.shapes = {}
        n = 0
        for name in self.order(rules):
            for a in self.actions_of(rules[name]):
                self.action_no[id(a)] = n
                n += 1

    def order(self, rules):
        return list(rules.keys())  # dict preserves file order

    def actions_of(self, e):
        if e[0] == "action":
            yield e
        elif e[0] in ("seq", "alt"):
            for k in e[1]:
                yield from self.actions_of(k)
        elif e[0] in ("star", "plus", "opt", "pred", "cap"):
            yield from self.actions_of(e[1])

    # the abstract stack is a tuple of items; None = dead (the path panics)
    def action(self, e, st):
        n = self.action_no[id(e)]
        body = e[1]
        st = list(st)
        events = []
        for m in re.finditer(r"p\.pop\(\)(?:\.\(([^)]+)\))?|p\.(push\w*|saveParams|loadParams|setNodeChain)\(|\bpanic\(", body):
            pos = m.start()
            if m.group(2):
                # a call takes effect after its arguments have been evaluated: at its closing parenthesis
                depth, j = 0, m.end() - 1
                while True:
                    if body[j] == "(":
                        depth += 1
                    elif body[j] == ")":
                        depth -= 1
                        if depth == 0:
                            break
                    j += 1
                pos = j
            events.append((pos, m))
        events = [m for _, m in sorted(events, key=lambda x: x[0])]
        popped = []
        branch_pushes = None
        for m in events:
            txt = m.group(0)
            if txt.startswith("p.pop"):
                want = m.group(1) or ""
                if not st or st[-1] == MARK or st[-1].endswith("*") or st[-1].endswith("?"):
                    raise Fail("action %d pops a value but the abstract stack is %s" % (n, st))
                have = st.pop()
                if not sat(have, want):
                    raise Fail("action %d asserts .(%s) on a popped %s" % (n, want, have))
                popped.append((have, want))
            elif txt.startswith("panic("):
                if re.match(r"\s*panic\(", body.strip()):
                    return None  # the whole action is a panic
            else:
                fn = m.group(2)
                if fn == "saveParams":
                    st.append(MARK)  # a frame opens (when the stack is empty nothing is saved: then the frame is the whole stack)
                elif fn == "loadParams":
                    if MARK not in st:
                        raise Fail("action %d: loadParams without an open frame" % n)
                    k = len(st) - 1 - st[::-1].index(MARK)
                    del st[k]
                elif fn == "setNodeChain":
                    k = len(st) - st[::-1].index(MARK) if MARK in st else 0
                    frame = st[k:]
                    if not frame or any(not sat(t.rstrip("*"), NODE) for t in frame) or frame[0].endswith("*"):
                        raise Fail("action %d: setNodeChain on a frame that is not node, node*...: %s" % (n, frame))
                    st[k:] = [NODE]
                elif fn == "push":
                    arg = body[m.end():body.index(")", m.end())].strip()
                    st.append(self.push_type(n, arg, popped, body))
                else:
                    if fn == "pushScriptQualifier":
                        return None
                    if fn not in PUSHES:
                        raise Fail("action %d calls unknown constructor %s" % (n, fn))
                    st.append(PUSHES[fn])
        # if / else and switch branches that each push once: the regex walk above counted every textual push; fold them
        st = self.fold_branches(n, body, st)
        return tuple(st)

    def push_type(self, n, arg, popped, body):
        if arg == "text" or arg.startswith("p.unescape("):
            return STR
        if arg.startswith("p.toFloat("):
            return F64
        if arg in ("true", "false"):
            return BOOL
        if arg == "nil":
            return NIL
        # a variable holding a popped value: its asserted (or abstract) type
        m = re.search(r"\b%s\s*:?=\s*p\.pop\(\)(?:\.\(([^)]+)\))?" % re.escape(arg), body)
        if m:
            for have, want in popped:
                if want == (m.group(1) or ""):
                    return have if not want else want
        raise Fail("action %d: cannot type the pushed expression %r" % (n, arg))

    def fold_branches(self, n, body, st):
        """`if c { push A } else { push B }` and `switch { case: push..; push.. case: push..; push.. }` were walked textually:
        every branch's pushes are on the abstract stack one after the other.  All branches must push the same types; keep one."""
        b = body
        if re.search(r"\}\s*else\s*\{", b):
            parts = 2
        elif "switch" in b:
            parts = len(re.findall(r"\bcase\b", b))
            if "default:" not in b:
                # the path on which no case matches pushes nothing: it must be impossible - recorded as a residual assumption
                self.residual.append("action %d: the switch has no default; the path on which no case matches is assumed impossible" % n)
        else:
            return st
        pushes = len(re.findall(r"p\.push\w*\(", b))
        if pushes % parts:
            raise Fail("action %d: branches push different numbers of values" % n)
        per = pushes // parts
        tail = st[len(st) - pushes:]
        groups = [tuple(tail[i * per:(i + 1) * per]) for i in range(parts)]
        acc = groups[0]
        for g in groups[1:]:
            acc = self.lub_stacks(acc, g)
            if acc is None:
                raise Fail("action %d: branches push different types %s" % (n, groups))
        return st[:len(st) - pushes] + list(acc)

    def lub(self, a, b):
        """least upper bound of two item types (None if there is none)"""
        if a == b:
            return a
        for sup in (SUB, QUERY, NODE):
            if (a == sup or sup in SUPER.get(a, ())) and (b == sup or sup in SUPER.get(b, ())):
                return sup
        lits = (STR, F64, BOOL, NIL, "literal")
        if a in lits and b in lits:
            return "literal"  # a literal of a filter: only ever popped without a type assertion
        return None

    def lub_stacks(self, x, y):
        if len(x) != len(y):
            return None
        out = []
        for a, b in zip(x, y):
            star = a.endswith("*") or b.endswith("*")
            if a.endswith("*") != b.endswith("*"):
                return None
            t = self.lub(a.rstrip("*"), b.rstrip("*"))
            if t is None:
                return None
            out.append(t + ("*" if star else ""))
        return tuple(out)

    def run(self, e, st):
        if st is None:
            return None
        k = e[0]
        if k in ("lex", "pred"):
            return st
        if k == "cap":
            return self.run(e[1], st)
        if k == "action":
            self.shapes.setdefault(self.action_no[id(e)], set()).add(st)
            return self.action(e, st)
        if k == "seq":
            for x in e[1]:
                st = self.run(x, st)
                if st is None:
                    return None
            return st
        if k == "alt":
            outs = [self.run(x, st) for x in e[1]]
            live = [o for o in outs if o is not None]
            if not live:
                return None
            acc = live[0]
            for o in live[1:]:
                nxt = self.lub_stacks(acc, o)
                if nxt is None:
                    raise Fail("alternatives leave different stacks: %s / %s" % (acc, o))
                acc = nxt
            return acc
        if k == "opt":
            o = self.run(e[1], st)
            if o is None or o == st:
                return st
            if len(o) > len(st) and o[:len(st)] == st:
                # values that may or may not have been pushed: nothing may pop them (checked where a pop meets one)
                return st + tuple(t.rstrip("*?") + "?" for t in o[len(st):])
            raise Fail("an optional sub-expression changes the stack: %s -> %s" % (st, o))
        if k in ("star", "plus"):
            o = self.run(e[1], st)
            if o is None or o == st:
                return st
            if len(o) > len(st) and o[:len(st)] == st:
                grown = o[len(st):]
                many = tuple(t.rstrip("*") + "*" for t in grown)
                # one more round on top of the repeated items must give the same picture
                o2 = self.run(e[1], st + many)
                if o2 is not None and o2[:len(st) + len(many)] == st + many and tuple(t.rstrip("*") + "*" for t in o2[len(st) + len(many):]) == many:
                    return st + many
            raise Fail("the body of a repetition neither keeps the stack nor only pushes: %s -> %s" % (st, o))
        if k == "ref":
            name = e[1]
            # what is below the innermost open frame is out of reach of every action (setNodeChain and the pops stay above
            # the marker): analyse the rule on the part from the marker up and put the rest back afterwards
            below = ()
            if MARK in st:
                k = len(st) - 1 - st[::-1].index(MARK)
                below, st = st[:k], st[k:]
            key = (name, st)
            if key in self.memo:
                out = self.memo[key]
                return None if out is None else below + out
            if name in self.active and self.DECL.get(name) is not None:
                # recursion (a query inside a filter inside a path inside a query ...): the declared effect of the rule,
                # which is checked against the rule's body where the rule is analysed
                return below + self.declared(name, st)
            self.active[name] = self.active.get(name, 0) + 1
            try:
                out = self.run(self.rules[name], st)
            finally:
                self.active[name] -= 1
                if not self.active[name]:
                    del self.active[name]
            d = self.declared(name, st)
            if d is not None and out is not None and self.lub_stacks(out, d) != d:
                raise Fail("rule %s leaves %s, its declared effect gives %s" % (name, out, d))
            if out is not None and st[:1] == (MARK,) and out[:1] != (MARK,):
                raise Fail("rule %s closes a frame it did not open" % name)
            self.memo[key] = out
            return None if out is None else below + out
        raise Fail("unknown expression kind " + k)

    # declared net effects of the rules that take part in recursion (checked against their bodies above)
    DECL = {"query": [QUERY], "jsonpathParameter": [NODE], "jsonpath": [NODE], "jsonpathFilter": [JPP, BOOL],
            "andQuery": [QUERY], "basicQuery": [QUERY], "filter": [NODE], "qualifier": [NODE], "bracketNode": [NODE],
            "childNode": [NODE], "singleJsonpathFilter": [CP], "qParam": [CP], "qNumericParam": [CP], "comparator": [QUERY],
            "continuedJsonpath": None}

    def declared(self, name, st):
        d = self.DECL.get(name)
        if d is None:
            return None
        return st + tuple(d)

    residual = []


# ---------------------------------------------------------------- C18: spellings the grammar declares insignificant


def refs_of(e, rules, seen=None, through_rules=True):
    """names of the rules an expression refers to (transitively when through_rules)"""
    seen = set() if seen is None else seen
    if e[0] == "ref":
        if e[1] not in seen:
            seen.add(e[1])
            if through_rules and e[1] in rules:
                refs_of(rules[e[1]], rules, seen, True)
    elif e[0] in ("seq", "alt"):
        for k in e[1]:
            refs_of(k, rules, seen, through_rules)
    elif e[0] in ("star", "plus", "opt", "pred", "cap"):
        refs_of(e[1], rules, seen, through_rules)
    return seen


def has_action(e, rules, seen=None):
    seen = set() if seen is None else seen
    if e[0] == "action":
        return True
    if e[0] == "ref":
        if e[1] in seen or e[1] not in rules:
            return False
        seen.add(e[1])
        return has_action(rules[e[1]], rules, seen)
    if e[0] in ("seq", "alt"):
        return any(has_action(k, rules, seen) for k in e[1])
    if e[0] in ("star", "plus", "opt", "pred", "cap"):
        return has_action(e[1], rules, seen)
    return False


# uses of the captured text that do not feed a value of the query: the step's text in error messages, the position of a
# syntax error, the (rejected) script text, the test for a leading `!`
TEXT_ONLY = [r"p\.setLastNodeText\(text\)", r"p\.pushFunction\(text,", r"p\.pushScriptQualifier\(text\)", r"text\[0:1\]", r"p\.syntaxErr\("]


def spelling_check(rules):
    probs = []
    if "space" not in rules:
        return ["the grammar has no rule `space`"]
    # (a) optional space and the separators built from it run no action
    for name, body in rules.items():
        direct = refs_of(body, rules, through_rules=False)
        lexical_only = all(k[0] in ("lex", "action") or (k[0] == "ref" and k[1] == "space") for k in (body[1] if body[0] == "seq" else [body]))
        if name == "space" or ("space" in direct and lexical_only):
            if has_action(body, rules):
                probs.append("separator rule %s runs an action" % name)
    # (b) a captured text that feeds a value never includes optional space
    def walk(e, rule):
        if e[0] == "seq":
            cap = None
            for k in e[1]:
                if k[0] == "cap":
                    cap = k
                elif k[0] == "action":
                    body = k[1]
                    rest = body
                    for pat in TEXT_ONLY:
                        rest = re.sub(pat, "", rest)
                    if re.search(r"\btext\b", rest):
                        if cap is None:
                            probs.append("rule %s: an action uses `text` without a capture before it" % rule)
                        elif "space" in refs_of(cap, rules):
                            probs.append("rule %s: the captured text that feeds a value can include optional space" % rule)
                walk(k, rule)
        elif e[0] == "alt":
            for k in e[1]:
                walk(k, rule)
        elif e[0] in ("star", "plus", "opt", "pred", "cap"):
            walk(e[1], rule)
    for name, body in rules.items():
        walk(body, name)
    # (e) an action that tests the first character of its captured text (`text[0:1] == "!"`) relies on the capture starting
    # with that character whenever the optional rule matched: the capture must begin with the optional rule, and that rule
    # with the literal
    for name, body in rules.items():
        def first_items(e):
            while e[0] in ("seq",) and e[1]:
                e = e[1][0]
            return e
        def walk2(e):
            if e[0] == "seq":
                cap = None
                for k in e[1]:
                    if k[0] == "cap":
                        cap = k
                    elif k[0] == "action" and cap is not None:
                        m = re.search(r'text\[0:1\]\s*==\s*`(.)`', k[1])
                        if m:
                            ch = m.group(1)
                            f = first_items(cap[1])
                            ok = False
                            if f[0] == "opt" and f[1][0] == "ref" and f[1][1] in rules:
                                inner = first_items(rules[f[1][1]])
                                ok = inner[0] == "lex"  # the literal itself is not kept by this parser: position is what matters
                                lit = re.match(r"\s*'(.)'", src_of.get(f[1][1], ""))
                                ok = ok and lit is not None and lit.group(1) == ch
                            if not ok:
                                probs.append("rule %s: the action tests text[0:1] == `%s` but the capture does not begin with an optional rule that begins with that literal" % (name, ch))
                    walk2(k)
            elif e[0] == "alt":
                for k in e[1]:
                    walk2(k)
            elif e[0] in ("star", "plus", "opt", "pred", "cap"):
                walk2(e[1])
        walk2(body)
    # (c) `.*` and `[*]` run the same action: both the dot form and the bracket form refer to one wildcard rule
    for a, b in (("dotChildIdentifier", "wildcardIdentifier"), ("bracketNodeIdentifier", "wildcardIdentifier")):
        if a not in rules or b not in refs_of(rules[a], rules, through_rules=False):
            probs.append("rule %s does not refer to %s: `.*` and `[*]` no longer run the same action" % (a, b))
    # (d) a path without `$` starts with the very rules a later step uses
    if "rootNode" in rules and "childNode" in rules:
        first = refs_of(rules["rootNode"], rules, through_rules=False) - {"rootIdentifier"}
        later = refs_of(rules["childNode"], rules, through_rules=False)
        if not first or not first <= later:
            probs.append("rootNode's alternatives without `$` (%s) are not the rules of a later step (%s)" % (sorted(first), sorted(later)))
    else:
        probs.append("rules rootNode / childNode not found")
    return probs


def main(repo):
    rules = load_grammar(os.path.join(repo, "jsonpath.peg"))
    ck = Checker(rules)
    ck.residual = []
    problems = []
    try:
        out = ck.run(("ref", "expression"), ())
        if out not in ((), None):
            problems.append("the start rule leaves %s on the stack" % (out,))
    except Fail as e:
        problems.append(str(e))
    except Exception as e:  # a grammar this checker cannot read
        problems.append("checker error: %r" % (e,))
    # the numbering used here is the numbering of the generated parser (ruleActionN), and the `case ruleActionN assume`
    # shape clauses of the contract file are exactly the ones generated from the action text
    try:
        sys.path.insert(0, os.path.dirname(os.path.abspath(__file__)))
        from actions_check import peg_actions
        acts = peg_actions(open(os.path.join(repo, "jsonpath.peg")).read())
        mine = {}
        for name in rules:
            for a in ck.actions_of(rules[name]):
                mine[ck.action_no[id(a)]] = a[1]
        if len(acts) != len(mine) or any(acts[i].strip() != mine[i].strip() for i in range(len(acts))):
            problems.append("the action numbering of the stack checker differs from the generator's")
        import subprocess
        gen = subprocess.run([sys.executable, os.path.join(os.path.dirname(os.path.abspath(__file__)), "gen_action_contracts.py"), repo],
                             capture_output=True, text=True).stdout.splitlines()
        ctext = open(os.path.join(repo, "zz_verif_contracts.go")).read() if os.path.exists(os.path.join(repo, "zz_verif_contracts.go")) else ""
        missing = [l.split(" assume ")[0].split()[-1] for l in gen if l.strip() and l not in ctext]
        if missing:
            problems.append("the contract file's stack-shape clauses are not the ones derived from the grammar's action text: " + ", ".join(missing))
    except Exception as e:
        problems.append("cross-check error: %r" % (e,))
    if len(ck.shapes) != len(ck.action_no):
        problems.append("%d of %d actions are not reached from the start rule" % (len(ck.action_no) - len(ck.shapes), len(ck.action_no)))
    shapes = {str(k): sorted(" ".join(s) for s in v) for k, v in sorted(ck.shapes.items())}
    try:
        spelling = spelling_check(rules)
    except Exception as e:
        spelling = ["checker error: %r" % (e,)]
    print(json.dumps({"spelling_problems": spelling, "rules": len(rules), "actions": len(ck.action_no), "actions_reached": len(ck.shapes),
                      "problems": problems, "residual_assumptions": sorted(set(ck.residual)), "stack_shapes_at_actions": shapes}, indent=1))
    return 0


if __name__ == "__main__":
    sys.exit(main(sys.argv[1] if len(sys.argv) > 1 else "/repo"))
