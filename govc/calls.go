package main

import (
	"fmt"
	"go/token"
	"go/types"
	"sort"
	"strconv"
	"strings"

	"golang.org/x/tools/go/ssa"
)

// ------------------------------------------------------------------ write sets

var writeSetMemo = map[*ssa.Function]map[string]bool{}
var writeSetBusy = map[*ssa.Function]bool{}

func (w *World) structHeaps(t types.Type, out map[string]bool) {
	s := t.Underlying().(*types.Struct)
	for i := 0; i < s.NumFields(); i++ {
		ft := s.Field(i).Type()
		if isStructType(ft) && !isEmptyStruct(ft) {
			w.structHeaps(ft, out)
			continue
		}
		out[w.fieldHeap(t, i)] = true
	}
}

func (w *World) storeHeaps(addr ssa.Value, out map[string]bool) {
	et := derefType(addr.Type())
	if isEmptyStruct(et) {
		return
	}
	if isStructType(et) {
		w.structHeaps(et, out)
		return
	}
	switch a := addr.(type) {
	case *ssa.FieldAddr:
		out[w.fieldHeap(derefType(a.X.Type()), a.Field)] = true
	case *ssa.IndexAddr:
		out[w.elemHeap(et)] = true
	default:
		if isArrayType(et) {
			out[w.elemHeap(et.Underlying().(*types.Array).Elem())] = true
		} else {
			out[w.cellHeap(et)] = true
		}
	}
}

func (w *World) allocHeaps(out map[string]bool) {
	out["alloc"] = true
	out[w.ghostHeap("G_mine")] = true
}

// blockWrites: heaps possibly written by the given blocks (transitively through calls).
func (w *World) blockWrites(fn *ssa.Function, blocks []*ssa.BasicBlock) map[string]bool {
	out := map[string]bool{}
	for _, b := range blocks {
		for _, in := range b.Instrs {
			switch x := in.(type) {
			case *ssa.Store:
				w.storeHeaps(x.Addr, out)
			case *ssa.MapUpdate:
				mt := x.Map.Type().Underlying().(*types.Map)
				es := w.sortOf(mt.Elem())
				if es == "Val" {
					out[w.heap("M_val", "(Array Int (Array Str Val))")] = true
					out[w.heap("M_dom", "(Array Int (Array Str Bool))")] = true
					out[w.heap("M_len", "(Array Int Int)")] = true
				} else {
					out[w.heap("MF_"+es+"_val", "(Array Int (Array Str "+es+"))")] = true
					out[w.heap("MF_"+es+"_dom", "(Array Int (Array Str Bool))")] = true
					out[w.heap("MF_"+es+"_len", "(Array Int Int)")] = true
				}
			case *ssa.Alloc:
				w.allocHeaps(out)
				et := derefType(x.Type())
				if isStructType(et) && !isEmptyStruct(et) {
					w.structHeaps(et, out)
				} else if isArrayType(et) {
					out[w.elemHeap(et.Underlying().(*types.Array).Elem())] = true
				} else if !isEmptyStruct(et) {
					out[w.cellHeap(et)] = true
				}
			case *ssa.MakeSlice:
				w.allocHeaps(out)
				out[w.elemHeap(x.Type().Underlying().(*types.Slice).Elem())] = true
			case *ssa.MakeMap, *ssa.MakeClosure:
				w.allocHeaps(out)
			case *ssa.Convert:
				if w.sortOf(x.Type()) == "Slice" {
					w.allocHeaps(out)
				}
			case ssa.CallInstruction:
				for h := range w.callWrites(x.Common()) {
					out[h] = true
				}
			}
		}
	}
	return out
}

func (w *World) funcWrites(fn *ssa.Function) map[string]bool {
	if m, ok := writeSetMemo[fn]; ok {
		return m
	}
	if writeSetBusy[fn] {
		return map[string]bool{} // recursion: fixpoint reached through the outer call
	}
	if blk := w.specs.get("extern", fnName(fn)); blk != nil || len(fn.Blocks) == 0 || !w.inPackage(fn) {
		out := map[string]bool{}
		if blk != nil {
			for _, c := range blk.Clauses {
				if c.Kind == "modifies" {
					for _, n := range c.Names {
						if strings.HasPrefix(n, "heap:") {
							hn := strings.TrimPrefix(n, "heap:")
							if strings.HasSuffix(hn, "*") {
								// wildcard over the registered heaps (all struct fields are registered at start-up)
								pre := strings.TrimSuffix(hn, "*")
								for _, known := range w.heapOrder {
									if strings.HasPrefix(known, pre) {
										out[known] = true
									}
								}
								continue
							}
							if hn == "alloc" {
								w.allocHeaps(out)
							} else if _, ok := w.heapSorts[hn]; ok {
								out[hn] = true
							} else if strings.HasPrefix(hn, "G_") {
								out[w.ghostHeap(hn)] = true
							}
						}
					}
				}
			}
		}
		writeSetMemo[fn] = out
		return out
	}
	writeSetBusy[fn] = true
	out := w.blockWrites(fn, fn.Blocks)
	// iterate once more for recursion
	writeSetMemo[fn] = out
	out2 := w.blockWrites(fn, fn.Blocks)
	for h := range out2 {
		out[h] = true
	}
	delete(writeSetBusy, fn)
	writeSetMemo[fn] = out
	return out
}

func (w *World) implementations(recv types.Type, method string) []*ssa.Function {
	var out []*ssa.Function
	iface, ok := recv.Underlying().(*types.Interface)
	if !ok {
		return nil
	}
	for _, c := range w.ctorOrder {
		t := w.ctorType[c]
		if t == nil || !types.Implements(t, iface) {
			continue
		}
		ms := w.prog.MethodSets.MethodSet(t)
		for i := 0; i < ms.Len(); i++ {
			if ms.At(i).Obj().Name() == method {
				if f := w.prog.MethodValue(ms.At(i)); f != nil {
					out = append(out, f)
				}
			}
		}
	}
	return out
}

func (w *World) callWrites(c *ssa.CallCommon) map[string]bool {
	out := map[string]bool{}
	if c.IsInvoke() {
		for _, f := range w.implementations(c.Value.Type(), c.Method.Name()) {
			for h := range w.funcWrites(f) {
				out[h] = true
			}
		}
		return out
	}
	switch v := c.Value.(type) {
	case *ssa.Builtin:
		if v.Name() == "append" {
			w.allocHeaps(out)
			out[w.elemHeap(c.Args[0].Type().Underlying().(*types.Slice).Elem())] = true
		}
		return out
	case *ssa.Function:
		return w.funcWrites(v)
	case *ssa.MakeClosure:
		return w.funcWrites(v.Fn.(*ssa.Function))
	}
	// call through a function value: user function; it may mark its argument escaped
	out[w.ghostHeap("G_esc")] = true
	w.allocHeaps(out)
	return out
}

// ------------------------------------------------------------------ calls

func (ex *Exec) doCall(fr *Frame, st *State, site ssa.Instruction, c *ssa.CallCommon, k func(*State, SVal)) {
	var args []SVal
	for _, a := range c.Args {
		args = append(args, ex.val(fr, st, a))
	}
	pos := site.Pos()
	if c.IsInvoke() {
		recv := ex.val(fr, st, c.Value)
		ex.check(fr, st, "nil", "invoke", pos, not(eq(recv.T, "VNil")))
		iname := typeKey(c.Value.Type())
		if k2 := strings.LastIndex(iname, "."); k2 >= 0 {
			iname = iname[k2+1:]
		}
		name := iname + "." + c.Method.Name()
		blk := ex.w.specs.get("interface", name)
		if blk == nil {
			ex.errorf("%s: no interface contract for %s", fnName(fr.fn), name)
			k(st, ex.havocResult(st, c.Signature().Results()))
			return
		}
		blk.used = true
		sig := c.Signature()
		ex.applyContract(fr, st, blk, name, sig, append([]SVal{recv}, args...), c.Value.Type(), ex.w.callWrites(c), pos, k)
		return
	}
	switch v := c.Value.(type) {
	case *ssa.Builtin:
		ex.doBuiltin(fr, st, site, v, c, args, k)
		return
	case *ssa.Function:
		ex.callFunction(fr, st, v, args, nil, pos, k)
		return
	case *ssa.MakeClosure:
		binds := st.vals[closureBinds{v}]
		ex.callFunction(fr, st, v.Fn.(*ssa.Function), args, binds.Tup, pos, k)
		return
	}
	// dynamic call through a function value
	fv := ex.val(fr, st, c.Value)
	ex.check(fr, st, "nil", "funcvalue", pos, not(eq(fv.T, "0")))
	name := typeKey(c.Value.Type().Underlying())
	blk := ex.w.specs.get("functype", name)
	if blk == nil {
		ex.errorf("%s: no functype contract for %s", fnName(fr.fn), name)
		k(st, ex.havocResult(st, c.Signature().Results()))
		return
	}
	blk.used = true
	ex.applyContract(fr, st, blk, name, c.Signature(), append([]SVal{fv}, args...), nil, ex.w.callWrites(c), pos, k)
}

func (ex *Exec) havocResult(st *State, res *types.Tuple) SVal {
	mk := func(t types.Type) SVal {
		c := ex.fresh("res", ex.w.sortOf(t))
		ex.assumeWF(st, t, c)
		return SVal{T: c}
	}
	switch res.Len() {
	case 0:
		return SVal{}
	case 1:
		return mk(res.At(0).Type())
	}
	var tup []SVal
	for i := 0; i < res.Len(); i++ {
		tup = append(tup, mk(res.At(i).Type()))
	}
	return SVal{Tup: tup}
}

func (ex *Exec) callFunction(fr *Frame, st *State, fn *ssa.Function, args []SVal, binds []SVal, pos token.Pos, k func(*State, SVal)) {
	name := fnName(fn)
	if blk := ex.w.specs.get("extern", name); blk != nil {
		blk.used = true
		ex.applyContract(fr, st, blk, name, fn.Signature, args, nil, ex.w.funcWrites(fn), pos, k)
		return
	}
	blk := ex.w.specs.get("func", name)
	if blk != nil && !blk.Inline {
		blk.used = true
		ex.applyContract(fr, st, blk, name, fn.Signature, args, nil, ex.w.funcWrites(fn), pos, k)
		return
	}
	if (len(fn.Blocks) == 0 || !ex.w.inPackage(fn)) && pureLibrary(fn) {
		// a function (not a method) of a side-effect-free standard package: no write, no panic, an unknown result -
		// enough for every safety and frame obligation; nothing functional follows from it
		if ex.w.pureUsed == nil {
			ex.w.pureUsed = map[string]bool{}
		}
		ex.w.pureUsed[name] = true
		ex.havocWrites(st, map[string]bool{"alloc": true}, nil, nil)
		k(st, ex.havocResult(st, fn.Signature.Results()))
		return
	}
	if len(fn.Blocks) == 0 || !ex.w.inPackage(fn) {
		ex.errorf("%s: call of external %s without extern contract", fnName(fr.fn), name)
		ex.havocWrites(st, map[string]bool{"alloc": true}, nil, nil)
		k(st, ex.havocResult(st, fn.Signature.Results()))
		return
	}
	// inline
	if fr.depth > 8 {
		ex.errorf("%s: inlining too deep at %s (give it a contract)", fnName(fr.fn), name)
		k(st, ex.havocResult(st, fn.Signature.Results()))
		return
	}
	for p := fr; p != nil; p = p.parent {
		if p.fn == fn {
			ex.errorf("%s: recursive call of %s needs a contract", fnName(fr.fn), name)
			k(st, ex.havocResult(st, fn.Signature.Results()))
			return
		}
	}
	ex.inline(fr, st, fn, args, binds, k)
}

func (ex *Exec) inline(fr *Frame, st *State, fn *ssa.Function, args []SVal, binds []SVal, k func(*State, SVal)) {
	nf := ex.newFrame(fn, fr, fr.prefix+"/"+fnName(fn))
	for i, p := range fn.Params {
		st.vals[p] = args[i]
	}
	for i, fv := range fn.FreeVars {
		if i < len(binds) {
			st.vals[fv] = binds[i]
		}
	}
	nf.pre = st.clone()
	nf.env0 = ex.paramEnv(fn, args)
	saved := st.inLoop
	st.inLoop = map[*ssa.BasicBlock]bool{}
	nf.onReturn = func(st2 *State, results []SVal) {
		// every return path gets its own copy: the caller marks loops it enters afterwards in this map
		st2.inLoop = make(map[*ssa.BasicBlock]bool, len(saved))
		for b, v := range saved {
			st2.inLoop[b] = v
		}
		switch len(results) {
		case 0:
			k(st2, SVal{})
		case 1:
			k(st2, results[0])
		default:
			k(st2, SVal{Tup: results})
		}
	}
	ex.execBlock(nf, fn.Blocks[0], st, nil)
}

func (ex *Exec) paramEnv(fn *ssa.Function, args []SVal) map[string]CV {
	env := map[string]CV{}
	for i, p := range fn.Params {
		if i < len(args) && args[i].Tup == nil && args[i].Loc == nil {
			env[p.Name()] = CV{T: args[i].T, Sort: ex.w.sortOf(p.Type()), Type: p.Type()}
		}
	}
	return env
}

// contractEnv binds the parameter names of a contract block.
func (ex *Exec) contractEnv(blk *Block, sig *types.Signature, args []SVal, recvT types.Type) map[string]CV {
	env := map[string]CV{}
	i := 0
	if blk.Kind == "interface" {
		env["this"] = CV{T: args[0].T, Sort: "Val", Type: recvT}
		i = 1
	} else if blk.Kind == "functype" {
		env["fn"] = CV{T: args[0].T, Sort: "Int"}
		i = 1
	} else if sig.Recv() != nil {
		n := sig.Recv().Name()
		if n == "" || n == "_" {
			n = "this"
		}
		env[n] = CV{T: args[0].T, Sort: ex.w.sortOf(sig.Recv().Type()), Type: sig.Recv().Type()}
		env["this"] = env[n]
		i = 1
	}
	ps := sig.Params()
	for j := 0; j < ps.Len(); j++ {
		if i+j >= len(args) {
			break
		}
		n := ps.At(j).Name()
		if n == "" || n == "_" {
			n = fmt.Sprintf("arg%d", j)
		}
		a := args[i+j]
		if a.Tup != nil {
			continue
		}
		env[n] = CV{T: a.T, Sort: ex.w.sortOf(ps.At(j).Type()), Type: ps.At(j).Type()}
		env[fmt.Sprintf("arg%d", j)] = env[n]
	}
	return env
}

func bindResults(env map[string]CV, w *World, sig *types.Signature, res []SVal) {
	rs := sig.Results()
	for j := 0; j < rs.Len() && j < len(res); j++ {
		cv := CV{T: res[j].T, Sort: w.sortOf(rs.At(j).Type()), Type: rs.At(j).Type()}
		env[fmt.Sprintf("ret%d", j)] = cv
		if n := rs.At(j).Name(); n != "" && n != "_" {
			env[n] = cv
		}
		if rs.Len() == 1 {
			env["ret"] = cv
		}
	}
}

// listedRefs evaluates the modifies items of a block in a state.
func (ex *Exec) listedRefs(blk *Block, ctx *EvalCtx) []string {
	var out []string
	for _, c := range blk.Clauses {
		if c.Kind != "modifies" {
			continue
		}
		for _, item := range c.Names {
			if strings.HasPrefix(item, "heap:") || item == "nothing" || item == "fresh" {
				continue
			}
			r, err := ex.listedRef(item, ctx)
			if err != nil {
				ex.errorf("%s: modifies %s: %v", blk.Name, item, err)
				continue
			}
			out = append(out, r)
		}
	}
	return out
}

func (ex *Exec) listedRef(item string, ctx *EvalCtx) (string, error) {
	item = strings.TrimSpace(item)
	if strings.HasPrefix(item, "elems(") && strings.HasSuffix(item, ")") {
		e, err := parseExpr(item[len("elems(") : len(item)-1])
		if err != nil {
			return "", err
		}
		v, err := ctx.evalAny(e)
		if err != nil {
			return "", err
		}
		return "elems:" + sArr(v.T), nil
	}
	if strings.HasPrefix(item, "obj(") && strings.HasSuffix(item, ")") {
		e, err := parseExpr(item[len("obj(") : len(item)-1])
		if err != nil {
			return "", err
		}
		v, err := ctx.evalAny(e)
		if err != nil {
			return "", err
		}
		return v.T, nil
	}
	if strings.HasPrefix(item, "*") {
		e, err := parseExpr(item[1:])
		if err != nil {
			return "", err
		}
		v, err := ctx.evalAny(e)
		if err != nil {
			return "", err
		}
		return v.T, nil
	}
	// x.f : the object holding field f
	e, err := parseExpr(item)
	if err != nil {
		return "", err
	}
	if e.Op != "field" {
		return "", fmt.Errorf("expected x.f, elems(s), obj(x) or *p")
	}
	v, err := ctx.evalAny(e.Args[0])
	if err != nil {
		return "", err
	}
	return ex.ownerRef(v.T), nil
}

func (ex *Exec) applyContract(fr *Frame, st *State, blk *Block, name string, sig *types.Signature, args []SVal,
	recvT types.Type, writes map[string]bool, pos token.Pos, k func(*State, SVal)) {

	env := ex.contractEnv(blk, sig, args, recvT)
	pre := st.clone()
	ctx := &EvalCtx{ex: ex, st: pre, old: pre, env: env}
	short := name
	for _, c := range blk.Clauses {
		if c.Kind == "requires" {
			t, err := ctx.evalBool(c.E)
			if err != nil {
				ex.errorf("%s: requires of %s: %v", fnName(fr.fn), name, err)
				continue
			}
			ex.check(fr, st, "pre", short, pos, t)
		}
	}
	listedRaw := ex.listedRefs(blk, ctx)
	mine := ex.heapTerm(st, ex.w.ghostHeap("G_mine"))
	var listed []string
	for _, r := range listedRaw {
		ex.check(fr, st, "frame-call", short, pos, listedPermission(mine, r))
		listed = append(listed, strings.TrimPrefix(r, "elems:"))
	}
	var released []string
	var releasedConds []string
	for _, c := range blk.Clauses {
		if c.Kind == "releases" {
			v, err := ctx.evalAny(c.E)
			if err != nil {
				ex.errorf("%s: releases: %v", name, err)
				continue
			}
			cond := "true"
			if c.When != nil {
				ct, err := ctx.evalBool(c.When)
				if err != nil {
					ex.errorf("%s: releases when: %v", name, err)
					continue
				}
				cond = ct
			}
			held := ex.heapTerm(st, ex.w.ghostHeap("G_held"))
			esc := ex.heapTerm(st, ex.w.ghostHeap("G_esc"))
			ex.check(fr, st, "use-after-put", "release:"+short, pos, implies(cond, sel(held, v.T)))
			released = append(released, v.T)
			releasedConds = append(releasedConds, cond)
			if ps, err2 := safePoolSlice(ctx, v); err2 == nil {
				ex.check(fr, st, "escape", "release:"+short, pos, implies(cond, or(eq(sArr(ps.T), "0"), not(sel(esc, sArr(ps.T))))))
				released = append(released, sArr(ps.T))
				releasedConds = append(releasedConds, cond)
				st.gone = append(st.gone, goneRef{ref: sArr(ps.T), cond: cond})
			}
		}
	}
	// decreases: recursive calls must decrease the measure of the function under contract
	if ex.recursiveWith(blk, recvT) {
		ex.checkDecreases(fr, st, blk, ctx, pos, short)
	}
	// havoc
	pure := false
	for _, c := range blk.Clauses {
		if c.Kind == "pure" {
			pure = true
		}
	}
	if !pure {
		all := append(append([]string(nil), listed...), released...)
		if len(released) > 0 {
			w2 := map[string]bool{}
			for h := range writes {
				w2[h] = true
			}
			w2[ex.w.ghostHeap("G_held")] = true
			w2[ex.w.ghostHeap("G_mine")] = true
			writes = w2
		}
		if blk.Parsetime {
			ex.havocLoop(st, writes) // wholesale: only read-only locations are framed
		} else {
			ex.havocWrites(st, writes, all, released)
		}
		for i, r := range released {
			// released objects are no longer held / owned
			hH, mH := ex.w.ghostHeap("G_held"), ex.w.ghostHeap("G_mine")
			st.assume(implies(and(releasedConds[i], not(eq(r, "0"))), and(not(sel(ex.heapTerm(st, hH), r)), not(sel(ex.heapTerm(st, mH), r)))))
		}
	}
	res := ex.havocResult(st, sig.Results())
	var resList []SVal
	if res.Tup != nil {
		resList = res.Tup
	} else if sig.Results().Len() == 1 {
		resList = []SVal{res}
	}
	env2 := map[string]CV{}
	for k2, v := range env {
		env2[k2] = v
	}
	bindResults(env2, ex.w, sig, resList)
	post := &EvalCtx{ex: ex, st: st, old: pre, env: env2}
	mark := len(st.pc)
	for _, c := range blk.Clauses {
		switch c.Kind {
		case "ensures", "assume":
			t, err := post.evalBool(c.E)
			if err != nil {
				ex.errorf("%s: ensures of %s: %v", fnName(fr.fn), name, err)
				continue
			}
			st.assume(t)
		case "acquires":
			v, err := post.evalAny(c.E)
			if err != nil {
				ex.errorf("%s: acquires: %v", name, err)
				continue
			}
			hH, mH, eH := ex.w.ghostHeap("G_held"), ex.w.ghostHeap("G_mine"), ex.w.ghostHeap("G_esc")
			st.assume(sel(ex.heapTerm(st, hH), v.T))
			st.assume(sel(ex.heapTerm(st, mH), v.T))
			st.assume(not("(RO " + v.T + ")"))
			if ps, err := safePoolSlice(post, v); err == nil {
				st.assume(sel(ex.heapTerm(st, mH), sArr(ps.T)))
				st.assume(not(sel(ex.heapTerm(st, eH), sArr(ps.T))))
				st.assume(not("(RO " + sArr(ps.T) + ")"))
			}
		}
	}
	// panicking exit of the callee
	var panics []string
	for _, c := range blk.Clauses {
		if c.Kind == "panics" {
			panics = append(panics, c.Names...)
		}
	}
	if len(panics) > 0 {
		ps2 := st.clone()
		ps2.pc = append([]string(nil), st.pc[:mark]...)
		pv := ex.fresh("panicval", "Val")
		var ds []string
		pctx := &EvalCtx{ex: ex, st: ps2, env: env}
		for _, p := range panics {
			ds = append(ds, pctx.typeTest(pv, p))
		}
		ps2.assume(or(ds...))
		ex.doPanic(fr, ps2, SVal{T: pv}, pos)
	}
	k(st, res)
}

func safePoolSlice(ctx *EvalCtx, v CV) (cv CV, err error) {
	defer func() {
		if r := recover(); r != nil {
			err = fmt.Errorf("%v", r)
		}
	}()
	return ctx.poolSlice(v), nil
}

func (ex *Exec) havocIfUntouched(st *State, h string, writes map[string]bool) {
	if writes[h] {
		return
	}
	old := ex.heapTerm(st, h)
	nw := ex.havocHeap(st, h)
	_ = old
	_ = nw
}

// recursiveWith: can a call through this contract re-enter the function under verification?
func (ex *Exec) recursiveWith(blk *Block, recvT types.Type) bool {
	if ex.fn == nil {
		return false
	}
	switch blk.Kind {
	case "func":
		if callee := ex.w.funcByName[blk.Name]; callee != nil {
			return ex.sameSCC(callee)
		}
	case "interface":
		if recvT == nil {
			return false
		}
		k := strings.LastIndex(blk.Name, ".")
		for _, impl := range ex.w.implementations(recvT, blk.Name[k+1:]) {
			if ex.sameSCC(impl) {
				return true
			}
		}
	}
	return false
}

func (ex *Exec) calleeOf(blk *Block) *ssa.Function {
	if blk.Kind != "func" {
		return nil
	}
	return ex.w.funcByName[blk.Name]
}

// sameSCC: is callee (mutually) recursive with the function under verification?
func (ex *Exec) sameSCC(callee *ssa.Function) bool {
	if callee == ex.fn {
		return true
	}
	return ex.w.reaches(callee, ex.fn) && ex.w.reaches(ex.fn, callee)
}

func (ex *Exec) checkDecreases(fr *Frame, st *State, blk *Block, ctx *EvalCtx, pos token.Pos, short string) {
	var calleeM *Expr
	for _, c := range blk.Clauses {
		if c.Kind == "decreases" {
			calleeM = c.E
		}
	}
	if calleeM == nil || ex.measure0 == "" {
		ex.oblige(fr, st, "decreases", "call:"+short, pos, "false")
		return
	}
	m, err := ctx.evalAny(calleeM)
	if err != nil {
		ex.errorf("decreases of %s: %v", short, err)
		return
	}
	ex.oblige(fr, st, "decreases", "call:"+short, pos, and(le("0", ex.measure0), lt(m.T, ex.measure0)))
}

// ------------------------------------------------------------------ builtins

func (ex *Exec) doBuiltin(fr *Frame, st *State, site ssa.Instruction, b *ssa.Builtin, c *ssa.CallCommon, args []SVal, k func(*State, SVal)) {
	pos := site.Pos()
	switch b.Name() {
	case "len":
		switch ex.w.sortOf(c.Args[0].Type()) {
		case "Slice":
			k(st, SVal{T: sLen(args[0].T)})
		case "Str":
			k(st, SVal{T: "(strlen " + args[0].T + ")"})
		case "Int": // map
			_, _, lh := ex.mapHeaps(st)
			n := ex.fresh("maplen", "Int")
			st.assume(eq(n, ite(eq(args[0].T, "0"), "0", sel(lh, args[0].T))))
			st.assume(and(le("0", n), le(n, maxInt64)))
			k(st, SVal{T: n})
		default:
			ex.errorf("len of %s", c.Args[0].Type())
			k(st, SVal{T: "0"})
		}
	case "cap":
		k(st, SVal{T: sCap(args[0].T)})
	case "append":
		k(st, ex.doAppend(fr, st, c, args, pos))
	case "copy":
		k(st, ex.doCopy(fr, st, c, args, pos))
	case "recover":
		if st.panicV != nil {
			v := *st.panicV
			st.panicV = nil
			k(st, v)
		} else {
			k(st, SVal{T: "VNil"})
		}
	default:
		ex.errorf("%s: builtin %s unsupported", fnName(fr.fn), b.Name())
		k(st, ex.havocResult(st, c.Signature().Results()))
	}
}

// copy(dst, src): the first min(len(dst), len(src)) elements of src, as they were before the call (memmove), are written
// into dst; everything else keeps its value.  Writing needs ownership of dst's array.
func (ex *Exec) doCopy(fr *Frame, st *State, c *ssa.CallCommon, args []SVal, pos token.Pos) SVal {
	d, s := args[0].T, args[1].T
	u, ok := c.Args[0].Type().Underlying().(*types.Slice)
	if !ok || ex.w.sortOf(c.Args[1].Type()) != "Slice" {
		ex.errorf("copy from a string unsupported")
		return SVal{T: ex.fresh("copyn", "Int")}
	}
	h := ex.w.elemHeap(u.Elem())
	n := ex.fresh("copyn", "Int")
	st.assume(eq(n, ite(le(sLen(d), sLen(s)), sLen(d), sLen(s))))
	mine := ex.heapTerm(st, ex.w.ghostHeap("G_mine"))
	ex.check(fr, st, "frame-store", "copy", pos, implies(lt("0", n), sel(mine, sArr(d))))
	ex.checkNotGone(fr, st, sArr(s), pos)
	old := ex.heapTerm(st, h)
	nw := ex.havocHeap(st, h)
	tgt := sArr(d)
	st.assume(fmt.Sprintf("(forall ((a Int)) (! (=> (not (= a %s)) (= (select %s a) (select %s a))) :pattern ((select %s a))))", tgt, nw, old, nw))
	nt := fmt.Sprintf("(select %s %s)", nw, tgt)
	pat := fmt.Sprintf(":pattern ((select %s i))", nt)
	st.assume(fmt.Sprintf("(forall ((i Int)) (! (=> (or (< i %s) (>= i (+ %s %s))) (= (select %s i) (select (select %s %s) i))) %s))",
		sOff(d), sOff(d), n, nt, old, tgt, pat))
	st.assume(fmt.Sprintf("(forall ((i Int)) (! (=> (and (<= %s i) (< i (+ %s %s))) (= (select %s i) (select (select %s %s) (+ %s (- i %s))))) %s))",
		sOff(d), sOff(d), n, nt, old, sArr(s), sOff(s), sOff(d), pat))
	// the same in relative form, the shape contracts use for elements of a slice
	st.assume(fmt.Sprintf("(forall ((j Int)) (! (=> (and (<= 0 j) (< j %s)) (= (select %s (idx %s j)) (select (select %s %s) (idx %s j)))) :pattern ((select %s (idx %s j)))))",
		n, nt, sOff(d), old, sArr(s), sOff(s), nt, sOff(d)))
	return SVal{T: n}
}

// append(s, t...): in place when len+n <= cap, otherwise a fresh array.
func (ex *Exec) doAppend(fr *Frame, st *State, c *ssa.CallCommon, args []SVal, pos token.Pos) SVal {
	s, t := args[0].T, args[1].T
	u := c.Args[0].Type().Underlying().(*types.Slice)
	h := ex.w.elemHeap(u.Elem())
	// the appended elements: element j of the slice t, or byte j of the string t (append([]byte, string...))
	fromStr := ex.w.sortOf(c.Args[1].Type()) == "Str"
	n := sLen(t)
	if fromStr {
		n = "(strlen " + t + ")"
	} else {
		ex.checkNotGone(fr, st, sArr(t), pos)
	}
	newLen := ex.fresh("applen", "Int")
	st.assume(eq(newLen, add(sLen(s), n)))
	inPlace := le(newLen, sCap(s))
	mine := ex.heapTerm(st, ex.w.ghostHeap("G_mine"))
	// in-place append writes into the backing array: needs ownership
	ex.check(fr, st, "frame-store", "append", pos, implies(and(inPlace, lt("0", n)), sel(mine, sArr(s))))
	old := ex.heapTerm(st, h)
	fresh := ex.newRef(st, "apparr")
	st.assume(eq("(rtype "+fresh+")", fmt.Sprint(ex.w.typeID("[]"+ex.w.sortOf(u.Elem())))))
	res := ex.fresh("appres", "Slice")
	newCap := ex.fresh("appcap", "Int")
	st.assume(ite(inPlace,
		eq(res, mkSlice(sArr(s), sOff(s), newLen, sCap(s))),
		and(eq(res, mkSlice(fresh, "0", newLen, newCap)), le(newLen, newCap), le(newCap, maxInt64))))
	nw := ex.havocHeap(st, h)
	tgt := sArr(res)
	// all other arrays unchanged
	st.assume(fmt.Sprintf("(forall ((a Int)) (! (=> (not (= a %s)) (= (select %s a) (select %s a))) :pattern ((select %s a))))", tgt, nw, old, nw))
	nt := fmt.Sprintf("(select %s %s)", nw, tgt)
	pat := fmt.Sprintf(":pattern ((select %s i))", nt)
	base := add(sOff(s), sLen(s)) // first appended position when in place
	// in place: everything outside the appended window keeps its value; the window holds t
	st.assume(implies(inPlace, fmt.Sprintf("(forall ((i Int)) (! (=> (or (< i %s) (>= i (+ %s %s))) (= (select %s i) (select (select %s %s) i))) %s))",
		base, base, n, nt, old, sArr(s), pat)))
	srcAt := func(j string) string { // element j of t
		if fromStr {
			return "(byteAt " + t + " " + j + ")"
		}
		return fmt.Sprintf("(select (select %s %s) (+ %s %s))", old, sArr(t), sOff(t), j)
	}
	st.assume(implies(inPlace, fmt.Sprintf("(forall ((i Int)) (! (=> (and (<= %s i) (< i (+ %s %s))) (= (select %s i) %s)) %s))",
		base, base, n, nt, srcAt("(- i "+base+")"), pat)))
	// reallocated: copy of s at offset 0, then t
	st.assume(implies(not(inPlace), fmt.Sprintf("(forall ((i Int)) (! (=> (and (<= 0 i) (< i %s)) (= (select %s i) (select (select %s %s) (+ %s i)))) %s))",
		sLen(s), nt, old, sArr(s), sOff(s), pat)))
	st.assume(implies(not(inPlace), fmt.Sprintf("(forall ((i Int)) (! (=> (and (<= %s i) (< i %s)) (= (select %s i) %s)) %s))",
		sLen(s), newLen, nt, srcAt("(- i "+sLen(s)+")"), pat)))
	// the kept prefix in relative form (both cases at once): res[j] == s[j] - a consequence of the facts above whose
	// pattern is the idx() form contracts use for elements of the new slice
	st.assume(fmt.Sprintf("(forall ((j Int)) (! (=> (and (<= 0 j) (< j %s)) (= (select %s (idx %s j)) (select (select %s %s) (idx %s j)))) :pattern ((select %s (idx %s j)))))",
		sLen(s), nt, sOff(res), old, sArr(s), sOff(s), nt, sOff(res)))
	// a small constant number of appended elements: the ground instances of the window facts, written with idx() so that
	// contract triggers over the new slice find them
	if k, err := strconv.Atoi(n); err == nil && k >= 1 && k <= 4 {
		for j := 0; j < k; j++ {
			js := strconv.Itoa(j)
			if fromStr {
				st.assume(eq(sel(nt, idxT(sOff(res), add(sLen(s), js))), "(byteAt "+t+" "+js+")"))
			} else {
				st.assume(eq(sel(nt, idxT(sOff(res), add(sLen(s), js))), sel(sel(old, sArr(t)), idxT(sOff(t), js))))
			}
		}
	}
	return SVal{T: res}
}

// ------------------------------------------------------------------ defers and panics

func (ex *Exec) runDefers(fr *Frame, st *State, k func(*State)) {
	// pop the most recent deferred call registered by this frame
	idx := -1
	for i := len(st.defers) - 1; i >= 0; i-- {
		if st.defers[i].frame == fr {
			idx = i
			break
		}
	}
	if idx < 0 {
		k(st)
		return
	}
	d := st.defers[idx]
	st.defers = append(append([]deferred(nil), st.defers[:idx]...), st.defers[idx+1:]...)
	ex.doCall(fr, st, d.call, d.call.Common(), func(st2 *State, _ SVal) {
		ex.runDefers(fr, st2, k)
	})
}

func (ex *Exec) doPanic(fr *Frame, st *State, v SVal, pos token.Pos) {
	st.panicV = &v
	ex.runDefers(fr, st, func(st2 *State) {
		if st2.panicV == nil {
			// recovered: continue at the recover block, or return zero values
			if fr.fn.Recover != nil {
				ex.execBlock(fr, fr.fn.Recover, st2, nil)
			} else {
				fr.onReturn(st2, nil)
			}
			return
		}
		if fr.parent != nil {
			ex.doPanic(fr.parent, st2, *st2.panicV, pos)
			return
		}
		ex.topPanic(fr, st2, *st2.panicV, pos)
	})
}

// topPanic: a panic leaves the function under contract.
func (ex *Exec) topPanic(fr *Frame, st *State, v SVal, pos token.Pos) {
	var allowed []string
	if ex.block != nil {
		for _, c := range ex.block.Clauses {
			if c.Kind == "panics" {
				allowed = append(allowed, c.Names...)
			}
		}
	}
	if len(allowed) == 0 {
		ex.oblige(fr, st, "no-panic", "", pos, "false")
		return
	}
	ctx := &EvalCtx{ex: ex, st: st, env: map[string]CV{}}
	var ds []string
	for _, a := range allowed {
		ds = append(ds, ctx.typeTest(v.T, a))
	}
	ex.oblige(fr, st, "panic-type", "", pos, or(ds...))
}

// ------------------------------------------------------------------ call graph helpers

func (w *World) reaches(from, to *ssa.Function) bool {
	seen := map[*ssa.Function]bool{}
	var dfs func(f *ssa.Function) bool
	dfs = func(f *ssa.Function) bool {
		if seen[f] {
			return false
		}
		seen[f] = true
		for _, g := range w.callees(f) {
			if g == to || dfs(g) {
				return true
			}
		}
		return false
	}
	return dfs(from)
}

var calleesMemo = map[*ssa.Function][]*ssa.Function{}

func (w *World) callees(f *ssa.Function) []*ssa.Function {
	if c, ok := calleesMemo[f]; ok {
		return c
	}
	set := map[*ssa.Function]bool{}
	for _, b := range f.Blocks {
		for _, in := range b.Instrs {
			ci, ok := in.(ssa.CallInstruction)
			if !ok {
				if mc, ok := in.(*ssa.MakeClosure); ok {
					set[mc.Fn.(*ssa.Function)] = true
				}
				continue
			}
			c := ci.Common()
			if c.IsInvoke() {
				for _, g := range w.implementations(c.Value.Type(), c.Method.Name()) {
					set[g] = true
				}
				continue
			}
			switch v := c.Value.(type) {
			case *ssa.Function:
				set[v] = true
			case *ssa.MakeClosure:
				set[v.Fn.(*ssa.Function)] = true
			}
		}
	}
	var out []*ssa.Function
	for g := range set {
		out = append(out, g)
	}
	sort.Slice(out, func(i, j int) bool { return out[i].String() < out[j].String() })
	calleesMemo[f] = out
	return out
}

// listedPermission: what a caller must hold to lend a listed location to a callee.
// A backing array may also be nil or read-only: the callee then cannot write it (its own
// frame-store obligations need ownership), and the frame keeps read-only arrays unchanged.
func listedPermission(mine, r string) string {
	if strings.HasPrefix(r, "elems:") {
		a := strings.TrimPrefix(r, "elems:")
		return or(eq(a, "0"), sel(mine, a), "(RO "+a+")")
	}
	return sel(mine, r)
}

func (w *World) inPackage(fn *ssa.Function) bool {
	for f := fn; f != nil; f = f.Parent() {
		if f.Pkg == w.pkg {
			return true
		}
		if f.Pkg != nil {
			return false
		}
	}
	// synthetic wrappers have no package: accept those whose receiver type is declared here
	if fn.Signature.Recv() != nil {
		t := fn.Signature.Recv().Type()
		if p, ok := t.(*types.Pointer); ok {
			t = p.Elem()
		}
		if n, ok := t.(*types.Named); ok && n.Obj().Pkg() == w.pkg.Pkg {
			return true
		}
	}
	return false
}

// pureLibrary: package-level functions of standard packages that neither write caller-visible memory nor panic for any
// argument (strings.Repeat and the like, which panic on bad arguments, are left out)
func pureLibrary(fn *ssa.Function) bool {
	if fn.Signature.Recv() != nil || fn.Pkg == nil || fn.Pkg.Pkg == nil {
		return false
	}
	switch fn.Pkg.Pkg.Path() {
	case "strings":
		switch fn.Name() {
		case "Repeat", "NewReplacer", "NewReader":
			return false
		}
		return true
	case "unicode", "unicode/utf8", "math", "math/bits":
		return true
	case "strconv":
		switch fn.Name() {
		case "Itoa", "Quote", "FormatInt", "FormatUint", "FormatFloat", "FormatBool", "QuoteRune", "ParseInt", "ParseUint", "ParseBool", "Unquote":
			return true
		}
	case "sort":
		switch fn.Name() {
		case "SearchInts", "SearchStrings", "StringsAreSorted", "IntsAreSorted":
			return true
		}
	}
	return false
}

// checkNotGone: the elements of array a are read: a is none of the arrays given back to a pool earlier on this path
func (ex *Exec) checkNotGone(fr *Frame, st *State, a string, pos token.Pos) {
	if len(st.gone) == 0 {
		return
	}
	var cs []string
	for _, g := range st.gone {
		cs = append(cs, implies(g.cond, not(eq(g.ref, a))))
	}
	ex.check(fr, st, "use-after-put", "elements", pos, and(cs...))
}
