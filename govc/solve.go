package main

import (
	"bytes"
	"context"
	"fmt"
	"os"
	"os/exec"
	"path/filepath"
	"strings"
	"sync"
	"time"
)

type solverSpec struct {
	name string
	argv func(file string, timeoutS int, seed int) []string
}

var solvers = []solverSpec{
	{"z3-new", func(f string, t, seed int) []string {
		return []string{"z3-new", fmt.Sprintf("-T:%d", t), fmt.Sprintf("smt.random_seed=%d", seed), f}
	}},
	{"z3", func(f string, t, seed int) []string {
		return []string{"z3", fmt.Sprintf("-T:%d", t), fmt.Sprintf("smt.random_seed=%d", seed), f}
	}},
	{"cvc5", func(f string, t, seed int) []string {
		return []string{"cvc5", fmt.Sprintf("--tlimit=%d", t*1000), fmt.Sprintf("--seed=%d", seed), "--produce-models", f}
	}},
}

// symbolsOf lists the quoted symbols of a term.
func symbolsOf(t string, into map[string]bool) {
	for {
		i := strings.Index(t, "|")
		if i < 0 {
			return
		}
		j := strings.Index(t[i+1:], "|")
		if j < 0 {
			return
		}
		into[t[i+1:i+1+j]] = true
		t = t[i+j+2:]
	}
}

// queryFiltered keeps only the assumptions within `depth` symbol-sharing steps of the goal.
// Dropping assumptions is sound (it can only make an obligation harder to prove); it keeps the
// solver from wandering through facts about unrelated heap versions.
func (o *Obligation) queryFiltered(prelude string, depth int) string {
	n := len(o.PC)
	syms := make([]map[string]bool, n)
	for i, a := range o.PC {
		syms[i] = map[string]bool{}
		symbolsOf(a, syms[i])
	}
	reached := map[string]bool{}
	symbolsOf(o.Goal, reached)
	keep := make([]bool, n)
	for d := 0; d < depth; d++ {
		var add []int
		for i := 0; i < n; i++ {
			if keep[i] {
				continue
			}
			for sname := range syms[i] {
				if reached[sname] {
					add = append(add, i)
					break
				}
			}
		}
		if len(add) == 0 {
			break
		}
		for _, i := range add {
			keep[i] = true
		}
		for _, i := range add {
			// very large assertions (state axioms over many globals) do not propagate reachability
			if len(syms[i]) > 12 {
				continue
			}
			for sname := range syms[i] {
				reached[sname] = true
			}
		}
	}
	var b strings.Builder
	b.WriteString(prelude)
	used := map[string]bool{}
	symbolsOf(o.Goal, used)
	for i, a := range o.PC {
		if keep[i] {
			symbolsOf(a, used)
		}
	}
	for _, d := range o.ex.decls[:o.NDecl] {
		if used[declName(d)] {
			b.WriteString(d + "\n")
		}
	}
	for i, a := range o.PC {
		if keep[i] {
			b.WriteString("(assert " + a + ")\n")
		}
	}
	b.WriteString("(assert (not " + o.Goal + "))\n(check-sat)\n")
	return b.String()
}

func (o *Obligation) query(prelude string, wantModel bool) string {
	var b strings.Builder
	if wantModel {
		b.WriteString("(set-option :produce-models true)\n")
	}
	b.WriteString(prelude)
	used := usedSymbols(o)
	for _, d := range o.ex.decls[:o.NDecl] {
		if !used[declName(d)] {
			continue
		}
		b.WriteString(d)
		b.WriteByte('\n')
	}
	for _, a := range o.PC {
		b.WriteString("(assert " + a + ")\n")
	}
	b.WriteString("(assert (not " + o.Goal + "))\n")
	b.WriteString("(check-sat)\n")
	return b.String()
}

func runSolver(ctx context.Context, sp solverSpec, file string, timeoutS, seed int) (status string, out string, dur float64) {
	argv := sp.argv(file, timeoutS, seed)
	cctx, cancel := context.WithTimeout(ctx, time.Duration(timeoutS+2)*time.Second)
	defer cancel()
	cmd := exec.CommandContext(cctx, argv[0], argv[1:]...)
	var buf bytes.Buffer
	cmd.Stdout = &buf
	cmd.Stderr = &buf
	t0 := time.Now()
	_ = cmd.Run()
	dur = time.Since(t0).Seconds()
	out = buf.String()
	first := ""
	for _, l := range strings.Split(out, "\n") {
		l = strings.TrimSpace(l)
		if l == "" || strings.HasPrefix(l, "WARNING") {
			continue
		}
		first = l
		break
	}
	switch first {
	case "unsat":
		return "unsat", out, dur
	case "sat":
		return "sat", out, dur
	case "unknown", "timeout":
		return "unknown", out, dur
	}
	if strings.Contains(out, "error") || strings.Contains(out, "Error") {
		return "error", out, dur
	}
	return "unknown", out, dur
}

// discharge races the solvers on one obligation.
func discharge(o *Obligation, prelude, dir string, idx int, opts *Options) {
	file := filepath.Join(dir, fmt.Sprintf("q%05d.smt2", idx))
	q := o.query(prelude, true)
	if err := os.WriteFile(file, []byte(q), 0o644); err != nil {
		o.Status, o.Output = "unknown", err.Error()
		return
	}
	if opts.KeepSMT == "" {
		defer os.Remove(file)
	}
	ctx, cancel := context.WithCancel(context.Background())
	defer cancel()
	type res struct {
		solver, status, out string
		dur                 float64
	}
	useCVC5 := !strings.Contains(q, "(lambda") && !strings.Contains(q, "(as const")
	ch := make(chan res, len(solvers)+8)
	n := 0
	for _, depth := range []int{2, 3, 5} {
		n++
		go func(depth int) {
			f := fmt.Sprintf("%s.d%d.smt2", file, depth)
			if err := os.WriteFile(f, []byte(o.queryFiltered(prelude, depth)), 0o644); err != nil {
				ch <- res{"z3-new/filtered", "unknown", err.Error(), 0}
				return
			}
			if opts.KeepSMT == "" {
				defer os.Remove(f)
			}
			s, out, d := runSolver(ctx, solvers[0], f, opts.Timeout, opts.Seed)
			if s == "sat" {
				s = "unknown" // a model of a weakened query refutes nothing
			}
			ch <- res{fmt.Sprintf("z3-new/relevance-%d", depth), s, out, d}
		}(depth)
	}
	for _, sp := range solvers {
		if sp.name == "cvc5" && !useCVC5 {
			continue
		}
		n++
		go func(sp solverSpec) {
			s, out, d := runSolver(ctx, sp, file, opts.Timeout, opts.Seed)
			ch <- res{sp.name, s, out, d}
		}(sp)
	}
	if o.Kind == "lemma" {
		// code-independent lemmas: also without relevancy filtering (E-matching then sees the terms of every disjunct)
		n++
		go func() {
			sp := solverSpec{"z3-new/relevancy-0", func(f string, t, seed int) []string {
				return []string{"z3-new", fmt.Sprintf("-T:%d", t), fmt.Sprintf("smt.random_seed=%d", seed), "smt.relevancy=0", f}
			}}
			s, out, d := runSolver(ctx, sp, file, opts.Timeout, opts.Seed)
			if s == "sat" {
				s = "unknown"
			}
			ch <- res{sp.name, s, out, d}
		}()
	}
	for _, extra := range []int{1, 2} {
		n++
		go func(seed int) {
			s, out, d := runSolver(ctx, solvers[0], file, opts.Timeout, seed)
			if s == "sat" {
				s = "unknown"
			}
			ch <- res{fmt.Sprintf("z3-new/seed-%d", seed), s, out, d}
		}(opts.Seed + extra)
	}
	var errs []string
	var satRes *res
	for i := 0; i < n; i++ {
		r := <-ch
		switch r.status {
		case "unsat":
			o.Status, o.Solver, o.Time = "proved", r.solver, r.dur
			return
		case "sat":
			if satRes == nil {
				rr := r
				satRes = &rr
			}
			// a model from z3 is preferred; do not wait for others
			o.Status, o.Solver, o.Time, o.Output = "failed", r.solver, r.dur, firstLines(r.out, 1)
			o.Values = extractValues(o, prelude, file+".val.smt2", opts)
			return
		case "error":
			errs = append(errs, r.solver+": "+firstLines(r.out, 3))
		default:
			if o.Time < r.dur {
				o.Time = r.dur
			}
			o.Output += r.solver + ": " + firstLines(r.out, 2) + "\n"
		}
	}
	o.Status = "unknown"
	if len(errs) == n {
		o.Status = "error"
	}
	o.Output += strings.Join(errs, "\n")
}

func firstLines(s string, n int) string {
	ls := strings.Split(strings.TrimSpace(s), "\n")
	if len(ls) > n {
		ls = ls[:n]
	}
	return strings.Join(ls, " | ")
}

// quickPass: one fast solver alone on every obligation, wide parallelism; what it leaves is raced.
func quickPass(obls []*Obligation, prelude, dir string, opts *Options) {
	var wg sync.WaitGroup
	sem := make(chan struct{}, 15)
	t := 2
	if opts.Timeout < t {
		t = opts.Timeout
	}
	for i, o := range obls {
		if o.Structural {
			continue
		}
		wg.Add(1)
		sem <- struct{}{}
		go func(i int, o *Obligation) {
			defer wg.Done()
			defer func() { <-sem }()
			file := filepath.Join(dir, fmt.Sprintf("p%05d.smt2", i))
			if err := os.WriteFile(file, []byte(o.query(prelude, false)), 0o644); err != nil {
				return
			}
			defer os.Remove(file)
			tt := t
			if o.MustFail {
				tt = 1 // vacuity probes are expected NOT to be provable: a short look is enough
			}
			st, out, d := runSolver(context.Background(), solvers[0], file, tt, 0)
			if st == "unsat" {
				o.Status, o.Solver, o.Time = "proved", solvers[0].name, d
			} else if o.MustFail {
				o.Status, o.Solver, o.Time, o.Output = "unknown", solvers[0].name, d, firstLines(out, 1)
			}
		}(i, o)
	}
	wg.Wait()
}

func dischargeAll(obls []*Obligation, prelude string, opts *Options) {
	dir := opts.KeepSMT
	if dir == "" {
		d, err := os.MkdirTemp("", "govc-smt-")
		if err != nil {
			panic(err)
		}
		dir = d
		defer os.RemoveAll(d)
	} else {
		os.MkdirAll(dir, 0o755)
	}
	jobs := opts.Jobs
	if jobs <= 0 {
		jobs = 8
	}
	quickPass(obls, prelude, dir, opts)
	var wg sync.WaitGroup
	sem := make(chan struct{}, jobs)
	// a function of which many obligations are already undecided has changed beyond what its contract describes: the rest
	// of its obligations are not run (status "skipped"), the function is reported through the ones that were
	var mu sync.Mutex
	undecided := map[string]int{}
	const giveUp = 24
	for i, o := range obls {
		if o.Status == "proved" || o.MustFail || o.Structural {
			continue
		}
		wg.Add(1)
		sem <- struct{}{}
		go func(i int, o *Obligation) {
			defer wg.Done()
			defer func() { <-sem }()
			mu.Lock()
			n := undecided[o.Fn]
			mu.Unlock()
			if n >= giveUp {
				o.Status, o.Output = "skipped", fmt.Sprintf("not run: %d obligations of %s are already undecided", n, o.Fn)
				return
			}
			discharge(o, prelude, dir, i, opts)
			if o.Status != "proved" {
				mu.Lock()
				undecided[o.Fn]++
				mu.Unlock()
			}
		}(i, o)
	}
	wg.Wait()
}

// extractValues asks z3 for the values of the witness terms of a failed obligation.
func extractValues(o *Obligation, prelude, file string, opts *Options) map[string]string {
	if len(o.witness) == 0 {
		return nil
	}
	var b strings.Builder
	b.WriteString("(set-option :produce-models true)\n")
	b.WriteString(prelude)
	for _, d := range o.ex.decls[:o.NDecl] {
		b.WriteString(d + "\n")
	}
	for _, a := range o.PC {
		b.WriteString("(assert " + a + ")\n")
	}
	b.WriteString("(assert (not " + o.Goal + "))\n")
	var names []string
	for i, wt := range o.witness {
		n := fmt.Sprintf("w!%d", i)
		b.WriteString(fmt.Sprintf("(declare-const %s %s)\n(assert (= %s %s))\n", n, wt.Sort, n, wt.Term))
		names = append(names, n)
	}
	base := b.String()
	// prefer small models (replayable without huge allocations): bound size-like terms first
	var small strings.Builder
	for i, wt := range o.witness {
		if wt.Sort != "Int" {
			continue
		}
		if strings.HasPrefix(wt.Name, "len(") || strings.HasPrefix(wt.Name, "cap(") || !strings.ContainsAny(wt.Name, ".[") {
			small.WriteString(fmt.Sprintf("(assert (and (<= (- 16) w!%d) (<= w!%d 16)))\n", i, i))
		}
	}
	tail := "(check-sat)\n(get-value (" + strings.Join(names, " ") + "))\n"
	if opts.KeepSMT == "" {
		defer os.Remove(file)
	}
	for _, variant := range []string{small.String(), ""} {
		for _, sp := range solvers[:2] {
			if err := os.WriteFile(file, []byte(base+variant+tail), 0o644); err != nil {
				return nil
			}
			st, out, _ := runSolver(context.Background(), sp, file, opts.Timeout, opts.Seed)
			if st != "sat" {
				continue
			}
			vals := parseGetValue(out)
			res := map[string]string{}
			for i, wt := range o.witness {
				if v, ok := vals[fmt.Sprintf("w!%d", i)]; ok {
					res[wt.Name] = v
				}
			}
			return res
		}
	}
	return nil
}

// parseGetValue reads "((name value) (name value) ...)" after the first line.
func parseGetValue(out string) map[string]string {
	res := map[string]string{}
	k := strings.Index(out, "\n")
	if k < 0 {
		return res
	}
	s := out[k+1:]
	// tokenise
	i := 0
	skip := func() {
		for i < len(s) && (s[i] == ' ' || s[i] == '\n' || s[i] == '\t' || s[i] == '\r') {
			i++
		}
	}
	var sexpr func() string
	sexpr = func() string {
		skip()
		if i >= len(s) {
			return ""
		}
		if s[i] == '(' {
			start := i
			depth := 0
			for i < len(s) {
				if s[i] == '(' {
					depth++
				} else if s[i] == ')' {
					depth--
					if depth == 0 {
						i++
						break
					}
				} else if s[i] == '"' {
					i++
					for i < len(s) && s[i] != '"' {
						i++
					}
				}
				i++
			}
			return s[start:i]
		}
		start := i
		if s[i] == '|' {
			i++
			for i < len(s) && s[i] != '|' {
				i++
			}
			i++
			return s[start:i]
		}
		for i < len(s) && s[i] != ' ' && s[i] != '\n' && s[i] != ')' && s[i] != '(' {
			i++
		}
		return s[start:i]
	}
	skip()
	if i >= len(s) || s[i] != '(' {
		return res
	}
	i++
	for {
		skip()
		if i >= len(s) || s[i] == ')' {
			break
		}
		if s[i] != '(' {
			break
		}
		i++
		name := sexpr()
		val := sexpr()
		skip()
		if i < len(s) && s[i] == ')' {
			i++
		}
		res[name] = strings.Join(strings.Fields(val), " ")
	}
	return res
}

// declName extracts the |name| of "(declare-const |name| sort)".
func declName(d string) string {
	i := strings.Index(d, "|")
	if i < 0 {
		return ""
	}
	j := strings.Index(d[i+1:], "|")
	if j < 0 {
		return ""
	}
	return d[i+1 : i+1+j]
}

// usedSymbols: quoted symbols occurring in the path condition or the goal.
func usedSymbols(o *Obligation) map[string]bool {
	used := map[string]bool{}
	scan := func(t string) {
		for {
			i := strings.Index(t, "|")
			if i < 0 {
				return
			}
			j := strings.Index(t[i+1:], "|")
			if j < 0 {
				return
			}
			used[t[i+1:i+1+j]] = true
			t = t[i+j+2:]
		}
	}
	for _, a := range o.PC {
		scan(a)
	}
	scan(o.Goal)
	for _, w := range o.witness {
		scan(w.Term)
	}
	return used
}
