package main

// Mapping of Go types to SMT sorts, the Val datatype (dynamic values) and the
// SMT prelude shared by all queries.

import (
	"fmt"
	"go/types"
	"sort"
	"strings"

	"golang.org/x/tools/go/ssa"
)

// World holds everything derived once from the loaded package.
type World struct {
	prog *ssa.Program
	pkg  *ssa.Package

	// struct datatypes (by-value struct sorts), keyed by sort name
	structSorts map[string]*types.Struct
	structNamed map[string]types.Type
	structOrder []string

	// Val constructors: ctor name -> payload Go type (nil: no payload)
	ctorType  map[string]types.Type
	ctorOrder []string
	typeCtor  map[string]string // types.TypeString -> ctor name

	strConsts map[string]string // literal -> SMT constant name
	strOrder  []string

	heapSorts map[string]string // heap name -> SMT sort
	heapOrder []string

	globals        map[*ssa.Global]string // global -> ref constant name
	funcByName     map[string]*ssa.Function
	funcConstOrder []string

	specs *Contracts

	// library functions called without a contract and treated as pure and total (reported as assumptions)
	pureUsed map[string]bool
}

func sanitize(s string) string {
	var b strings.Builder
	for _, r := range s {
		switch {
		case r >= 'a' && r <= 'z', r >= 'A' && r <= 'Z', r >= '0' && r <= '9', r == '_':
			b.WriteRune(r)
		default:
			b.WriteRune('_')
		}
	}
	return b.String()
}

func typeKey(t types.Type) string {
	return types.TypeString(t, func(p *types.Package) string {
		if p.Path() == thePkgPath {
			return ""
		}
		return p.Name()
	})
}

func isEmptyStruct(t types.Type) bool {
	s, ok := t.Underlying().(*types.Struct)
	return ok && s.NumFields() == 0
}

// structSortName returns the datatype sort name for a by-value struct type.
func (w *World) structSortName(t types.Type) string {
	if isEmptyStruct(t) {
		return "Unit"
	}
	name := "S_" + sanitize(typeKey(t))
	if _, ok := w.structSorts[name]; !ok {
		w.structSorts[name] = t.Underlying().(*types.Struct)
		w.structNamed[name] = t
		w.structOrder = append(w.structOrder, name)
		// register field sorts recursively
		st := t.Underlying().(*types.Struct)
		for i := 0; i < st.NumFields(); i++ {
			w.sortOf(st.Field(i).Type())
		}
	}
	return name
}

// sortOf maps a Go type to its SMT sort.
func (w *World) sortOf(t types.Type) string {
	switch u := t.Underlying().(type) {
	case *types.Basic:
		switch {
		case u.Info()&types.IsBoolean != 0:
			return "Bool"
		case u.Info()&types.IsInteger != 0:
			return "Int"
		case u.Info()&types.IsString != 0:
			return "Str"
		case u.Info()&types.IsFloat != 0:
			return "F64"
		case u.Kind() == types.UnsafePointer:
			return "Int"
		case u.Kind() == types.UntypedNil:
			return "Val"
		}
	case *types.Pointer, *types.Map, *types.Chan, *types.Signature:
		return "Int"
	case *types.Slice:
		return "Slice"
	case *types.Interface:
		return "Val"
	case *types.Struct:
		return w.structSortName(t)
	case *types.Array:
		return "Int" // arrays only appear behind pointers; a value of array type is its ref
	case *types.Tuple:
		return "Tuple"
	}
	panic(fmt.Sprintf("sortOf: unsupported type %s", t))
}

func (w *World) zeroOf(t types.Type) string {
	return w.zeroOfSort(w.sortOf(t), t)
}

func (w *World) zeroOfSort(s string, t types.Type) string {
	switch s {
	case "Int":
		return "0"
	case "Bool":
		return "false"
	case "Str":
		return w.strConst("")
	case "F64":
		return "((_ to_fp 11 53) RNE 0.0)"
	case "Slice":
		return "(mkslice 0 0 0 0)"
	case "Val":
		return "VNil"
	case "Unit":
		return "unit"
	}
	if st, ok := w.structSorts[s]; ok {
		parts := []string{"(mk_" + s}
		for i := 0; i < st.NumFields(); i++ {
			parts = append(parts, w.zeroOf(st.Field(i).Type()))
		}
		return strings.Join(parts, " ") + ")"
	}
	panic("zeroOfSort " + s)
}

func (w *World) strConst(lit string) string {
	if n, ok := w.strConsts[lit]; ok {
		return n
	}
	n := fmt.Sprintf("str_%d", len(w.strConsts))
	w.strConsts[lit] = n
	w.strOrder = append(w.strOrder, lit)
	return n
}

// ctorFor returns the Val constructor boxing concrete Go type t.
func (w *World) ctorFor(t types.Type) string {
	k := typeKey(t)
	if c, ok := w.typeCtor[k]; ok {
		return c
	}
	var c string
	var payload types.Type = t
	switch k {
	case "float64":
		c = "VF64"
	case "string":
		c = "VStr"
	case "bool":
		c = "VBool"
	case "int":
		c = "VInt"
	case "json.Number":
		c = "VNum"
	case "struct{}":
		c, payload = "VEmpty", nil
	case "map[string]interface{}", "map[string]any":
		c = "VMap"
	case "[]interface{}", "[]any":
		c = "VList"
	default:
		switch u := t.Underlying().(type) {
		case *types.Pointer:
			c = "VP_" + sanitize(typeKey(u.Elem()))
		case *types.Struct:
			c = "VS_" + sanitize(k)
		default:
			c = "VT_" + sanitize(k)
		}
	}
	w.typeCtor[k] = c
	if _, ok := w.ctorType[c]; !ok {
		w.ctorType[c] = payload
		w.ctorOrder = append(w.ctorOrder, c)
		if payload != nil {
			w.sortOf(payload)
		}
	}
	return c
}

func ctorSel(c string) string { return "p" + c }

// heap returns the heap name, registering its sort.
func (w *World) heap(name, sortName string) string {
	if _, ok := w.heapSorts[name]; !ok {
		w.heapSorts[name] = sortName
		w.heapOrder = append(w.heapOrder, name)
	}
	return name
}

func (w *World) fieldHeap(st types.Type, idx int) string {
	s := st.Underlying().(*types.Struct)
	f := s.Field(idx)
	name := "F_" + sanitize(typeKey(st)) + "_" + f.Name()
	fs := w.sortOf(f.Type())
	return w.heap(name, "(Array Int "+fs+")")
}

func (w *World) elemHeap(elem types.Type) string {
	s := w.sortOf(elem)
	return w.heap("A_"+s, "(Array Int (Array Int "+s+"))")
}

func (w *World) cellHeap(elem types.Type) string {
	s := w.sortOf(elem)
	return w.heap("C_"+s, "(Array Int "+s+")")
}

func (w *World) ghostHeap(name string) string {
	return w.heap(name, "(Array Int Bool)")
}

// scanTypes walks all functions of the package registering constructors for
// every concrete type boxed into / asserted out of an interface.
func (w *World) scanTypes() {
	var fns []*ssa.Function
	for fn := range ssaAllFunctions(w.pkg) {
		fns = append(fns, fn)
	}
	sort.Slice(fns, func(i, j int) bool { return fns[i].String() < fns[j].String() })
	// fixed base constructors first so the datatype is stable
	for _, k := range []types.Type{
		types.Typ[types.Float64], types.Typ[types.String], types.Typ[types.Bool], types.Typ[types.Int],
	} {
		w.ctorFor(k)
	}
	for _, fn := range fns {
		for _, b := range fn.Blocks {
			for _, in := range b.Instrs {
				switch x := in.(type) {
				case *ssa.MakeInterface:
					w.ctorFor(x.X.Type())
				case *ssa.TypeAssert:
					if !types.IsInterface(x.AssertedType) {
						w.ctorFor(x.AssertedType)
					}
				}
			}
		}
	}
}

func ssaAllFunctions(pkg *ssa.Package) map[*ssa.Function]bool {
	out := map[*ssa.Function]bool{}
	var add func(fn *ssa.Function)
	add = func(fn *ssa.Function) {
		if fn == nil || out[fn] {
			return
		}
		out[fn] = true
		for _, a := range fn.AnonFuncs {
			add(a)
		}
	}
	for _, m := range pkg.Members {
		switch x := m.(type) {
		case *ssa.Function:
			add(x)
		case *ssa.Type:
			for _, t := range []types.Type{x.Type(), types.NewPointer(x.Type())} {
				ms := pkg.Prog.MethodSets.MethodSet(t)
				for i := 0; i < ms.Len(); i++ {
					f := pkg.Prog.MethodValue(ms.At(i))
					if f != nil && (f.Pkg == pkg || (f.Pkg == nil && f.Synthetic != "")) {
						add(f)
					}
				}
			}
		}
	}
	return out
}

// implementers returns the constructors whose Go type implements iface.
func (w *World) implementers(iface *types.Interface) []string {
	var out []string
	for _, c := range w.ctorOrder {
		t := w.ctorType[c]
		if t == nil {
			if iface.NumMethods() == 0 {
				out = append(out, c)
			}
			continue
		}
		if types.Implements(t, iface) {
			out = append(out, c)
		}
	}
	return out
}

// prelude renders the declarations shared by every query.
func (w *World) prelude() string {
	var b strings.Builder
	b.WriteString("(set-logic ALL)\n")
	b.WriteString("(declare-sort Str 0)\n")
	b.WriteString("(define-sort F64 () (_ FloatingPoint 11 53))\n")
	b.WriteString("(declare-datatypes ((Slice 0)) (((mkslice (s_arr Int) (s_off Int) (s_len Int) (s_cap Int)))))\n")
	b.WriteString("(declare-datatypes ((Unit 0)) (((unit))))\n")
	// Val and struct datatypes are mutually recursive
	names := []string{"(Val 0)"}
	for _, s := range w.structOrder {
		names = append(names, "("+s+" 0)")
	}
	b.WriteString("(declare-datatypes (" + strings.Join(names, " ") + ") (\n")
	b.WriteString("  ((VNil)")
	for _, c := range w.ctorOrder {
		t := w.ctorType[c]
		if t == nil {
			b.WriteString(" (" + c + ")")
		} else {
			b.WriteString(" (" + c + " (" + ctorSel(c) + " " + w.sortOf(t) + "))")
		}
	}
	b.WriteString(" (VOther (otype Int) (oid Int)))\n")
	for _, s := range w.structOrder {
		st := w.structSorts[s]
		b.WriteString("  ((mk_" + s)
		for i := 0; i < st.NumFields(); i++ {
			b.WriteString(fmt.Sprintf(" (%s_%s %s)", s, st.Field(i).Name(), w.sortOf(st.Field(i).Type())))
		}
		b.WriteString("))\n")
	}
	b.WriteString("))\n")
	b.WriteString("(declare-fun rtype (Int) Int)\n")
	b.WriteString("(define-fun sliceWF ((s Slice) (a Int)) Bool (and (<= 0 (s_arr s)) (< (s_arr s) a) (<= 0 (s_off s)) (<= 0 (s_len s)) (<= (s_len s) (s_cap s)) (<= (s_cap s) 9223372036854775807) (<= (+ (s_off s) (s_cap s)) 9223372036854775807) (=> (= (s_arr s) 0) (= (s_cap s) 0))))\n")
	b.WriteString("(define-fun valWF ((v Val) (a Int)) Bool (and true")
	for _, c := range w.ctorOrder {
		t := w.ctorType[c]
		if t == nil {
			continue
		}
		switch w.sortOf(t) {
		case "Slice":
			es := w.sortOf(t.Underlying().(*types.Slice).Elem())
			b.WriteString(fmt.Sprintf(" (=> ((_ is %s) v) (and (sliceWF (%s v) a) (or (= (s_arr (%s v)) 0) (= (rtype (s_arr (%s v))) %d))))", c, ctorSel(c), ctorSel(c), ctorSel(c), w.typeID("[]"+es)))
		case "Int":
			if _, isBasic := t.Underlying().(*types.Basic); !isBasic {
				b.WriteString(fmt.Sprintf(" (=> ((_ is %s) v) (and (<= 0 (%s v)) (< (%s v) a) (or (= (%s v) 0) (= (rtype (%s v)) %d))))", c, ctorSel(c), ctorSel(c), ctorSel(c), ctorSel(c), w.typeID(refTypeKey(t))))
			}
		default:
			// by-value struct payload: bound its pointer fields
			if st, ok := t.Underlying().(*types.Struct); ok {
				sn := w.structSortName(t)
				for i := 0; i < st.NumFields(); i++ {
					ft := st.Field(i).Type()
					switch ft.Underlying().(type) {
					case *types.Pointer, *types.Map, *types.Signature:
						f := fmt.Sprintf("(%s_%s (%s v))", sn, st.Field(i).Name(), ctorSel(c))
						b.WriteString(fmt.Sprintf(" (=> ((_ is %s) v) (and (<= 0 %s) (< %s a) (or (= %s 0) (= (rtype %s) %d))))", c, f, f, f, f, w.typeID(refTypeKey(ft))))
					}
				}
			}
		}
	}
	b.WriteString(" (=> ((_ is VOther) v) (>= (otype v) 0))))\n")
	// dynamic type tag
	b.WriteString("(define-fun dyn ((v Val)) Int")
	depth := 0
	b.WriteString(" (ite ((_ is VNil) v) 0")
	depth++
	for i, c := range w.ctorOrder {
		b.WriteString(fmt.Sprintf(" (ite ((_ is %s) v) %d", c, i+1))
		depth++
	}
	b.WriteString(" (+ 1000 (ite (>= (otype v) 0) (otype v) (- (otype v))))")
	b.WriteString(strings.Repeat(")", depth) + ")\n")
	b.WriteString("(declare-fun cmpOther (Int) Bool)\n")
	// comparable: dynamic type supports == without panicking
	b.WriteString("(define-fun comparableV ((v Val)) Bool (and true")
	for _, c := range w.ctorOrder {
		t := w.ctorType[c]
		if t != nil && !types.Comparable(t) {
			b.WriteString(" (not ((_ is " + c + ") v))")
		} else if t != nil && hasInterfaceField(t) {
			b.WriteString(" (not ((_ is " + c + ") v))") // conservative
		}
	}
	b.WriteString(" (=> ((_ is VOther) v) (and (>= (otype v) 0) (cmpOther (otype v))))))\n")
	// Go interface equality (float semantic for boxed floats)
	b.WriteString("(define-fun ifaceEq ((a Val) (b Val)) Bool (ite (and ((_ is VF64) a) ((_ is VF64) b)) (fp.eq (pVF64 a) (pVF64 b)) (= a b)))\n")
	b.WriteString("(declare-fun strlen (Str) Int)\n")
	b.WriteString("(assert (forall ((s Str)) (! (and (>= (strlen s) 0) (<= (strlen s) 4611686018427387904)) :pattern ((strlen s)))))\n")
	b.WriteString("(declare-fun strcat (Str Str) Str)\n")
	b.WriteString("(assert (forall ((a Str) (b Str)) (! (= (strlen (strcat a b)) (+ (strlen a) (strlen b))) :pattern ((strcat a b)))))\n")
	b.WriteString("(declare-fun strLt (Str Str) Bool)\n")
	b.WriteString("(declare-fun substr (Str Int Int) Str)\n")
	b.WriteString("(assert (forall ((s Str) (i Int) (j Int)) (! (=> (and (<= 0 i) (<= i j) (<= j (strlen s))) (= (strlen (substr s i j)) (- j i))) :pattern ((substr s i j)))))\n")
	b.WriteString("(declare-fun numToF (Str) F64)\n")
	b.WriteString("(declare-fun typeName (Int) Str)\n")
	b.WriteString("(declare-fun RO (Int) Bool)\n")
	b.WriteString("(declare-fun emb (Int Int) Int)\n") // emb(fieldId, ref): ref of a struct embedded by value
	b.WriteString("(assert (forall ((f Int) (r Int)) (! (=> (not (= r 0)) (not (= (emb f r) 0))) :pattern ((emb f r)))))\n")
	// string literals: pairwise distinct with known lengths
	if len(w.strOrder) > 0 {
		var ns []string
		for _, lit := range w.strOrder {
			n := w.strConsts[lit]
			ns = append(ns, n)
			b.WriteString(fmt.Sprintf("(declare-const %s Str) ; %q\n(assert (= (strlen %s) %d))\n", n, lit, n, len(lit)))
		}
		if len(ns) > 1 {
			b.WriteString("(assert (distinct " + strings.Join(ns, " ") + "))\n")
		}
	}
	if w.specs != nil {
		b.WriteString(w.specs.preludeText)
	}
	return b.String()
}

func hasInterfaceField(t types.Type) bool {
	st, ok := t.Underlying().(*types.Struct)
	if !ok {
		return false
	}
	for i := 0; i < st.NumFields(); i++ {
		if types.IsInterface(st.Field(i).Type()) {
			return true
		}
	}
	return false
}
