package main

// Evaluation of contract expressions to SMT terms in a symbolic state.

import (
	"fmt"
	"go/token"
	"go/types"
	"strings"
)

// CV is a typed contract value.
type CV struct {
	T         string
	Sort      string
	Type      types.Type // Go type when known
	StructRef bool       // T is the reference of a by-value struct location of Type
}

type EvalCtx struct {
	ex    *Exec
	st    *State
	old   *State
	atCall *State // state just before the call an `after` assertion is attached to
	env   map[string]CV
	depth int
	qn    int
}

type evalErr struct{ msg string }

func (c *EvalCtx) fail(format string, a ...interface{}) {
	panic(evalErr{fmt.Sprintf(format, a...)})
}

// evalBool evaluates a clause; errors are returned, not panicked.
func (c *EvalCtx) evalBool(e *Expr) (term string, err error) {
	defer func() {
		if r := recover(); r != nil {
			if ee, ok := r.(evalErr); ok {
				err = fmt.Errorf("%s", ee.msg)
				return
			}
			panic(r)
		}
	}()
	v := c.eval(e)
	if v.Sort != "Bool" {
		return "", fmt.Errorf("clause %s is not boolean (%s)", e, v.Sort)
	}
	return v.T, nil
}

func (c *EvalCtx) evalAny(e *Expr) (v CV, err error) {
	defer func() {
		if r := recover(); r != nil {
			if ee, ok := r.(evalErr); ok {
				err = fmt.Errorf("%s", ee.msg)
				return
			}
			panic(r)
		}
	}()
	return c.eval(e), nil
}

func (c *EvalCtx) w() *World { return c.ex.w }

func (c *EvalCtx) typed(t string, ty types.Type) CV {
	return CV{T: t, Sort: c.w().sortOf(ty), Type: ty}
}

func (c *EvalCtx) with(st *State) *EvalCtx {
	n := *c
	n.st = st
	return &n
}

func (c *EvalCtx) bind(name string, v CV) *EvalCtx {
	n := *c
	n.env = make(map[string]CV, len(c.env)+1)
	for k, x := range c.env {
		n.env[k] = x
	}
	n.env[name] = v
	return &n
}

func (c *EvalCtx) pkgTypes() *types.Package { return c.w().pkg.Pkg }

// resolveType parses a Go type expression in package scope.
func (c *EvalCtx) resolveType(text string) types.Type {
	text = strings.TrimSpace(text)
	switch text {
	case "json.Number":
		for _, imp := range c.pkgTypes().Imports() {
			if imp.Name() == "json" {
				return imp.Scope().Lookup("Number").Type()
			}
		}
	case "error":
		return types.Universe.Lookup("error").Type()
	}
	if strings.HasPrefix(text, "*sort.") || strings.HasPrefix(text, "sort.") {
		for _, imp := range c.pkgTypes().Imports() {
			if imp.Name() == "sort" {
				n := strings.TrimPrefix(strings.TrimPrefix(text, "*"), "sort.")
				t := imp.Scope().Lookup(n).Type()
				if strings.HasPrefix(text, "*") {
					return types.NewPointer(t)
				}
				return t
			}
		}
	}
	tv, err := types.Eval(token.NewFileSet(), c.pkgTypes(), token.NoPos, text)
	if err != nil || tv.Type == nil {
		c.fail("cannot resolve type %q: %v", text, err)
	}
	return tv.Type
}

func (c *EvalCtx) eval(e *Expr) CV {
	switch e.Op {
	case "int":
		return CV{T: e.Name, Sort: "Int", Type: types.Typ[types.Int]}
	case "str":
		return CV{T: c.w().strConst(e.Name), Sort: "Str", Type: types.Typ[types.String]}
	case "id":
		return c.ident(e.Name)
	case "old":
		if c.old == nil {
			c.fail("old() not allowed here")
		}
		n := c.with(c.old)
		// inside old(), parameters refer to their entry values (env already holds entry values)
		return n.eval(e.Args[0])
	case "field":
		return c.field(c.eval(e.Args[0]), e.Name)
	case "index":
		return c.index(c.eval(e.Args[0]), c.eval(e.Args[1]))
	case "un":
		x := c.eval(e.Args[0])
		switch e.Name {
		case "!":
			c.want(x, "Bool", e)
			return CV{T: not(x.T), Sort: "Bool"}
		case "-":
			c.want(x, "Int", e)
			return CV{T: "(- " + x.T + ")", Sort: "Int", Type: x.Type}
		}
	case "bin":
		return c.binary(e)
	case "cond":
		cnd := c.eval(e.Args[0])
		c.want(cnd, "Bool", e)
		a, b := c.eval(e.Args[1]), c.eval(e.Args[2])
		a, b = c.unify(a, b)
		return CV{T: ite(cnd.T, a.T, b.T), Sort: a.Sort, Type: a.Type}
	case "quant":
		n := *c
		n.env = make(map[string]CV, len(c.env)+len(e.Vars))
		for k, x := range c.env {
			n.env[k] = x
		}
		var bs []string
		for _, v := range e.Vars {
			c.ex.n++
			name := fmt.Sprintf("q!%s!%d", v.Name, c.ex.n)
			srt := v.Sort
			var ty types.Type
			switch srt {
			case "Int", "int":
				srt, ty = "Int", types.Typ[types.Int]
			case "Val", "any":
				srt = "Val"
				ty = types.NewInterfaceType(nil, nil)
			case "Str", "string":
				srt, ty = "Str", types.Typ[types.String]
			case "Bool", "bool":
				srt, ty = "Bool", types.Typ[types.Bool]
			case "ArrVal":
				srt = "(Array Int Val)"
			}
			n.env[v.Name] = CV{T: "|" + name + "|", Sort: srt, Type: ty}
			bs = append(bs, "(|"+name+"| "+srt+")")
		}
		body := n.eval(e.Args[0])
		c.want(body, "Bool", e)
		bt := body.T
		if len(e.Args) > 1 {
			bt = "(! " + bt
			for _, grp := range e.Args[1:] {
				var ps []string
				for _, te := range grp.Args {
					ps = append(ps, n.eval(te).T)
				}
				bt += " :pattern (" + strings.Join(ps, " ") + ")"
			}
			bt += ")"
		}
		return CV{T: "(" + e.Name + " (" + strings.Join(bs, " ") + ") " + bt + ")", Sort: "Bool"}
	case "typeis":
		x := c.eval(e.Args[0])
		c.want(x, "Val", e)
		return CV{T: c.typeTest(x.T, e.Name), Sort: "Bool"}
	case "typeas":
		x := c.eval(e.Args[0])
		c.want(x, "Val", e)
		ty := c.resolveType(e.Name)
		ctor := c.w().ctorFor(ty)
		if c.w().ctorType[ctor] == nil {
			return CV{T: "unit", Sort: "Unit", Type: ty}
		}
		return c.typed("("+ctorSel(ctor)+" "+x.T+")", ty)
	case "call":
		return c.call(e)
	}
	c.fail("cannot evaluate %s", e)
	return CV{}
}

func (c *EvalCtx) typeTest(v string, tyText string) string {
	if strings.TrimSpace(tyText) == "nil" {
		return eq(v, "VNil")
	}
	ty := c.resolveType(tyText)
	if iface, ok := ty.Underlying().(*types.Interface); ok {
		var ds []string
		for _, ct := range c.w().implementers(iface) {
			ds = append(ds, "((_ is "+ct+") "+v+")")
		}
		if len(ds) == 0 {
			return "false"
		}
		return or(ds...)
	}
	return "((_ is " + c.w().ctorFor(ty) + ") " + v + ")"
}

func (c *EvalCtx) want(v CV, sortName string, e *Expr) {
	if v.Sort != sortName {
		c.fail("%s: expected %s, got %s", e, sortName, v.Sort)
	}
}

// unify boxes a concrete value when compared with / assigned to a Val.
func (c *EvalCtx) unify(a, b CV) (CV, CV) {
	if a.Sort == b.Sort {
		return a, b
	}
	if a.Sort == "Val" && b.Type != nil {
		return a, c.box(b)
	}
	if b.Sort == "Val" && a.Type != nil {
		return c.box(a), b
	}
	c.fail("sort mismatch %s vs %s (%s, %s)", a.Sort, b.Sort, a.T, b.T)
	return a, b
}

func (c *EvalCtx) box(v CV) CV {
	if v.Sort == "Val" {
		return v
	}
	if v.Type == nil {
		c.fail("cannot box untyped %s", v.T)
	}
	if v.StructRef {
		ctor := c.w().ctorFor(types.NewPointer(v.Type))
		return CV{T: "(" + ctor + " " + v.T + ")", Sort: "Val"}
	}
	ctor := c.w().ctorFor(v.Type)
	if c.w().ctorType[ctor] == nil {
		return CV{T: ctor, Sort: "Val"}
	}
	return CV{T: "(" + ctor + " " + v.T + ")", Sort: "Val"}
}

func (c *EvalCtx) ident(name string) CV {
	if v, ok := c.env[name]; ok {
		return v
	}
	switch name {
	case "true", "false":
		return CV{T: name, Sort: "Bool", Type: types.Typ[types.Bool]}
	case "nil":
		return CV{T: "nil", Sort: "Nil"}
	case "alloc":
		return CV{T: c.st.alloc, Sort: "Int"}
	case "minInt":
		return CV{T: minInt64, Sort: "Int"}
	case "maxInt":
		return CV{T: maxInt64, Sort: "Int"}
	}
	if hs, ok := c.w().heapSorts[name]; ok {
		return CV{T: c.ex.heapTerm(c.st, name), Sort: hs}
	}
	if obj := c.pkgTypes().Scope().Lookup(name); obj != nil {
		switch o := obj.(type) {
		case *types.Var:
			g := c.w().pkg.Var(name)
			if g != nil {
				ref := c.w().globalRef(g)
				if isStructType(o.Type()) && !isEmptyStruct(o.Type()) {
					return CV{T: ref, Sort: "Int", Type: o.Type(), StructRef: true}
				}
				if isEmptyStruct(o.Type()) {
					return CV{T: "unit", Sort: "Unit", Type: o.Type()}
				}
				h := c.w().cellHeap(o.Type())
				return c.typed(sel(c.ex.heapTerm(c.st, h), ref), o.Type())
			}
		case *types.Const:
			if o.Type().Underlying().(*types.Basic).Info()&types.IsString != 0 {
				s := o.Val().ExactString()
				if len(s) >= 2 {
					s = s[1 : len(s)-1]
				}
				return CV{T: c.w().strConst(s), Sort: "Str", Type: types.Typ[types.String]}
			}
		}
	}
	c.fail("unknown identifier %q", name)
	return CV{}
}

func (c *EvalCtx) field(x CV, name string) CV {
	if x.Type == nil {
		c.fail("field %s of untyped value", name)
	}
	// by-value struct datatype term
	if !x.StructRef && isStructType(x.Type) {
		s := x.Type.Underlying().(*types.Struct)
		sortName := c.w().structSortName(x.Type)
		for i := 0; i < s.NumFields(); i++ {
			if s.Field(i).Name() == name {
				return c.typed(fmt.Sprintf("(%s_%s %s)", sortName, name, x.T), s.Field(i).Type())
			}
		}
		// promoted through embedded pointer
		for i := 0; i < s.NumFields(); i++ {
			if s.Field(i).Embedded() {
				inner := c.typed(fmt.Sprintf("(%s_%s %s)", sortName, s.Field(i).Name(), x.T), s.Field(i).Type())
				if _, ok := s.Field(i).Type().Underlying().(*types.Pointer); ok {
					return c.field(inner, name)
				}
			}
		}
		c.fail("no field %s in %s", name, x.Type)
	}
	var structT types.Type
	ref := x.T
	if x.StructRef {
		structT = x.Type
	} else if p, ok := x.Type.Underlying().(*types.Pointer); ok {
		structT = p.Elem()
	} else {
		c.fail("field %s of non-struct %s", name, x.Type)
	}
	obj, path, _ := types.LookupFieldOrMethod(structT, true, c.pkgTypes(), name)
	if _, ok := obj.(*types.Var); !ok || obj == nil {
		c.fail("no field %s in %s", name, structT)
	}
	cur := structT
	for k, idx := range path {
		s := cur.Underlying().(*types.Struct)
		f := s.Field(idx)
		last := k == len(path)-1
		if isStructType(f.Type()) && !isEmptyStruct(f.Type()) {
			ref = c.w().embRef(cur, idx, ref)
			cur = f.Type()
			if last {
				return CV{T: ref, Sort: "Int", Type: cur, StructRef: true}
			}
			continue
		}
		h := c.w().fieldHeap(cur, idx)
		v := sel(c.ex.heapTerm(c.st, h), ref)
		if last {
			return c.typed(v, f.Type())
		}
		p, ok := f.Type().Underlying().(*types.Pointer)
		if !ok {
			c.fail("embedded field %s is not a pointer/struct", f.Name())
		}
		ref = v
		cur = p.Elem()
	}
	c.fail("field path")
	return CV{}
}

func (c *EvalCtx) index(x, i CV) CV {
	if x.Type != nil {
		switch u := x.Type.Underlying().(type) {
		case *types.Slice:
			h := c.w().elemHeap(u.Elem())
			return c.typed(sel(sel(c.ex.heapTerm(c.st, h), sArr(x.T)), idxT(sOff(x.T), i.T)), u.Elem())
		case *types.Map:
			if es := c.w().sortOf(u.Elem()); es != "Val" {
				// maps of other element types (function tables) live in their own heaps
				h := c.w().heap("MF_"+es+"_val", "(Array Int (Array Str "+es+"))")
				return c.typed(sel(sel(c.ex.heapTerm(c.st, h), x.T), i.T), u.Elem())
			}
			h := c.w().heap("M_val", "(Array Int (Array Str Val))")
			return c.typed(sel(sel(c.ex.heapTerm(c.st, h), x.T), i.T), u.Elem())
		case *types.Pointer:
			if a, ok := u.Elem().Underlying().(*types.Array); ok {
				h := c.w().elemHeap(a.Elem())
				return c.typed(sel(sel(c.ex.heapTerm(c.st, h), x.T), i.T), a.Elem())
			}
		}
	}
	if strings.HasPrefix(x.Sort, "(Array ") {
		// (Array K E): strip the key sort
		rest := strings.TrimSuffix(strings.TrimPrefix(x.Sort, "(Array "), ")")
		k := strings.Index(rest, " ")
		es := rest[k+1:]
		cv := CV{T: sel(x.T, i.T), Sort: es}
		switch es {
		case "Int":
			cv.Type = types.Typ[types.Int]
		case "Str":
			cv.Type = types.Typ[types.String]
		case "Bool":
			cv.Type = types.Typ[types.Bool]
		}
		return cv
	}
	c.fail("cannot index %s", x.Sort)
	return CV{}
}

func (c *EvalCtx) nilOf(other CV) CV {
	switch other.Sort {
	case "Int":
		return CV{T: "0", Sort: "Int", Type: other.Type}
	case "Val":
		return CV{T: "VNil", Sort: "Val", Type: other.Type}
	}
	c.fail("nil compared with %s", other.Sort)
	return CV{}
}

func (c *EvalCtx) binary(e *Expr) CV {
	op := e.Name
	switch op {
	case "&&", "||", "==>", "<==>":
		a := c.eval(e.Args[0])
		b := c.eval(e.Args[1])
		c.want(a, "Bool", e.Args[0])
		c.want(b, "Bool", e.Args[1])
		switch op {
		case "&&":
			return CV{T: and(a.T, b.T), Sort: "Bool"}
		case "||":
			return CV{T: or(a.T, b.T), Sort: "Bool"}
		case "==>":
			return CV{T: implies(a.T, b.T), Sort: "Bool"}
		default:
			return CV{T: eq(a.T, b.T), Sort: "Bool"}
		}
	}
	a := c.eval(e.Args[0])
	b := c.eval(e.Args[1])
	switch op {
	case "==", "!=":
		var t string
		if a.Sort == "Nil" || b.Sort == "Nil" {
			if a.Sort == "Nil" {
				a, b = b, a
			}
			if a.Sort == "Slice" {
				t = eq(sArr(a.T), "0")
			} else {
				t = eq(a.T, c.nilOf(a).T)
			}
		} else {
			a, b = c.unify(a, b)
			t = eq(a.T, b.T)
		}
		if op == "!=" {
			t = not(t)
		}
		return CV{T: t, Sort: "Bool"}
	case "<", "<=", ">", ">=":
		if a.Sort == "F64" && b.Sort == "F64" {
			m := map[string]string{"<": "fp.lt", "<=": "fp.leq", ">": "fp.gt", ">=": "fp.geq"}
			return CV{T: "(" + m[op] + " " + a.T + " " + b.T + ")", Sort: "Bool"}
		}
		c.want(a, "Int", e.Args[0])
		c.want(b, "Int", e.Args[1])
		return CV{T: "(" + op + " " + a.T + " " + b.T + ")", Sort: "Bool"}
	case "+", "-", "*":
		if op == "+" && a.Sort == "Str" && b.Sort == "Str" {
			return CV{T: "(strcat " + a.T + " " + b.T + ")", Sort: "Str", Type: a.Type}
		}
		c.want(a, "Int", e.Args[0])
		c.want(b, "Int", e.Args[1])
		return CV{T: "(" + op + " " + a.T + " " + b.T + ")", Sort: "Int", Type: types.Typ[types.Int]}
	}
	c.fail("operator %s", op)
	return CV{}
}

// poolSlice: the slice owned by a pooled object (bufferContainer.result or *sort.StringSlice).
func (c *EvalCtx) poolSlice(x CV) CV {
	if x.Type != nil {
		if p, ok := x.Type.Underlying().(*types.Pointer); ok {
			if isStructType(p.Elem()) {
				return c.field(x, "result")
			}
			if _, ok := p.Elem().Underlying().(*types.Slice); ok {
				h := c.w().cellHeap(p.Elem())
				return c.typed(sel(c.ex.heapTerm(c.st, h), x.T), p.Elem())
			}
		}
	}
	c.fail("poolSlice of %s", x.Sort)
	return CV{}
}

func (c *EvalCtx) ghost(name string) string {
	return c.ex.heapTerm(c.st, c.w().ghostHeap(name))
}

func (c *EvalCtx) refOf(x CV) string {
	switch x.Sort {
	case "Slice":
		return sArr(x.T)
	case "Int":
		return x.T
	}
	c.fail("no reference in %s value", x.Sort)
	return ""
}

func (c *EvalCtx) call(e *Expr) CV {
	args := func() []CV {
		var out []CV
		for _, a := range e.Args {
			out = append(out, c.eval(a))
		}
		return out
	}
	boolean := func(t string) CV { return CV{T: t, Sort: "Bool"} }
	integer := func(t string) CV { return CV{T: t, Sort: "Int", Type: types.Typ[types.Int]} }
	switch e.Name {
	case "len":
		x := args()[0]
		switch x.Sort {
		case "Slice":
			return integer(sLen(x.T))
		case "Str":
			return integer("(strlen " + x.T + ")")
		case "Int":
			if _, ok := x.Type.Underlying().(*types.Map); ok {
				h := c.w().heap("M_len", "(Array Int Int)")
				return integer(sel(c.ex.heapTerm(c.st, h), x.T))
			}
		}
		c.fail("len of %s", x.Sort)
	case "cap":
		return integer(sCap(args()[0].T))
	case "arr":
		return integer(sArr(args()[0].T))
	case "off":
		return integer(sOff(args()[0].T))
	case "has":
		a := args()
		h := c.w().heap("M_dom", "(Array Int (Array Str Bool))")
		if a[0].Type != nil {
			if mt, ok := a[0].Type.Underlying().(*types.Map); ok {
				if es := c.w().sortOf(mt.Elem()); es != "Val" {
					h = c.w().heap("MF_"+es+"_dom", "(Array Int (Array Str Bool))")
				}
			}
		}
		return boolean(and(not(eq(a[0].T, "0")), sel(sel(c.ex.heapTerm(c.st, h), a[0].T), a[1].T)))
	case "fresh":
		x := args()[0]
		if c.old == nil {
			c.fail("fresh() needs a pre-state")
		}
		r := c.refOf(x)
		return boolean(and(le(c.old.alloc, r), lt(r, c.st.alloc), sel(c.ghost("G_mine"), r)))
	case "writable", "mine":
		return boolean(sel(c.ghost("G_mine"), c.refOf(args()[0])))
	case "elemAt":
		// elemAt(s, i): element at ABSOLUTE position i of the backing array of slice s
		a := args()
		u, ok := a[0].Type.Underlying().(*types.Slice)
		if !ok {
			c.fail("elemAt of non-slice")
		}
		h := c.w().elemHeap(u.Elem())
		return c.typed(sel(sel(c.ex.heapTerm(c.st, h), sArr(a[0].T)), a[1].T), u.Elem())
	case "wf":
		x := args()[0]
		if x.Type != nil {
			return boolean(c.ex.wfRefs(x.Type, x.T, c.st.alloc))
		}
		return boolean(c.ex.refsBelow(x.Sort, x.T, c.st.alloc))
	case "wasMine":
		if c.old == nil {
			c.fail("wasMine() needs a pre-state")
		}
		return boolean(sel(c.with(c.old).ghost("G_mine"), c.refOf(args()[0])))
	case "wasHeld":
		if c.old == nil {
			c.fail("wasHeld() needs a pre-state")
		}
		return boolean(sel(c.with(c.old).ghost("G_held"), args()[0].T))
	case "held":
		return boolean(sel(c.ghost("G_held"), args()[0].T))
	case "escaped":
		return boolean(sel(c.ghost("G_esc"), c.refOf(args()[0])))
	case "RO":
		return boolean("(RO " + c.refOf(args()[0]) + ")")
	case "ifaceEq":
		a := args()
		return boolean("(ifaceEq " + c.box(a[0]).T + " " + c.box(a[1]).T + ")")
	case "dyn":
		return integer("(dyn " + args()[0].T + ")")
	case "comparable":
		return boolean("(comparableV " + args()[0].T + ")")
	case "box":
		return c.box(args()[0])
	case "poolSlice":
		return c.poolSlice(args()[0])
	case "inInt":
		return boolean(inInt64(args()[0].T))
	case "numToF":
		return CV{T: "(numToF " + args()[0].T + ")", Sort: "F64", Type: types.Typ[types.Float64]}
	case "isNaN":
		return boolean("(fp.isNaN " + args()[0].T + ")")
	case "fpEq":
		a := args()
		return boolean("(fp.eq " + a[0].T + " " + a[1].T + ")")
	case "typeName":
		return CV{T: "(typeName (dyn " + args()[0].T + "))", Sort: "Str", Type: types.Typ[types.String]}
	case "runeCount":
		return integer("(runeCount " + args()[0].T + ")")
	case "idxOf":
		a := args()
		return integer(idxT(a[0].T, a[1].T))
	case "cloFn":
		return integer("(cloFn " + args()[0].T + ")")
	case "cloBind":
		a := args()
		return integer("(cloBind " + a[0].T + " " + a[1].T + ")")
	case "fnconst":
		if len(e.Args) != 1 || e.Args[0].Op != "str" {
			c.fail("fnconst needs a string")
		}
		fn := c.w().funcByName[e.Args[0].Name]
		if fn == nil {
			c.fail("fnconst: unknown function %q", e.Args[0].Name)
		}
		return integer(c.w().funcConst(fn))
	case "rangeKey":
		a := args()
		return CV{T: "(rangeKey " + a[0].T + " " + a[1].T + ")", Sort: "Str", Type: types.Typ[types.String]}
	case "atcall":
		// atcall(e): e evaluated in the state just before the call (only in `after` assertions)
		if c.atCall == nil {
			c.fail("atcall() is only available in after-call assertions")
		}
		if len(e.Args) != 1 {
			c.fail("atcall needs one argument")
		}
		return c.with(c.atCall).eval(e.Args[0])
	case "runeSuffix":
		a := args()
		return CV{T: "(runeSuffix " + a[0].T + " " + a[1].T + ")", Sort: "Str", Type: types.Typ[types.String]}
	case "byteAt":
		a := args()
		return integer("(byteAt " + a[0].T + " " + a[1].T + ")")
	case "strLt":
		a := args()
		return boolean("(strLt " + a[0].T + " " + a[1].T + ")")
	case "sameSlice":
		a := args()
		return boolean(eq(a[0].T, a[1].T))
	case "unchanged":
		// unchanged(s): every element of slice s has its old value
		if c.old == nil {
			c.fail("unchanged() needs a pre-state")
		}
		x := c.with(c.old).eval(e.Args[0])
		u, ok := x.Type.Underlying().(*types.Slice)
		if !ok {
			c.fail("unchanged of non-slice")
		}
		h := c.w().elemHeap(u.Elem())
		return boolean(eq(sel(c.ex.heapTerm(c.st, h), sArr(x.T)), sel(c.ex.heapTerm(c.old, h), sArr(x.T))))
	}
	if sp, ok := c.w().specs.Specs[e.Name]; ok {
		if len(sp.Params) != len(e.Args) {
			c.fail("spec %s: %d args, want %d", e.Name, len(e.Args), len(sp.Params))
		}
		if c.depth > 40 {
			c.fail("spec recursion too deep at %s", e.Name)
		}
		n := *c
		n.depth++
		n.env = make(map[string]CV, len(c.env)+len(sp.Params))
		for k, x := range c.env {
			n.env[k] = x
		}
		for i, p := range sp.Params {
			n.env[p.Name] = c.eval(e.Args[i])
		}
		return n.eval(sp.Body)
	}
	if d, ok := c.w().specs.declared(e.Name); ok {
		var ts []string
		for i, a := range args() {
			if i < len(d.args) && d.args[i] == "Val" {
				a = c.box(a)
			}
			ts = append(ts, a.T)
		}
		t := e.Name
		if len(ts) > 0 {
			t = "(" + e.Name + " " + strings.Join(ts, " ") + ")"
		}
		cv := CV{T: t, Sort: d.ret}
		switch d.ret {
		case "Int":
			cv.Type = types.Typ[types.Int]
		case "Str":
			cv.Type = types.Typ[types.String]
		case "F64":
			cv.Type = types.Typ[types.Float64]
		}
		return cv
	}
	c.fail("unknown function %s", e.Name)
	return CV{}
}

type declFun struct {
	args []string
	ret  string
}

// declared finds a (declare-fun name (sorts) sort) / (define-fun ...) in raw smt lines.
func (cs *Contracts) declared(name string) (declFun, bool) {
	for _, l := range cs.RawSMT {
		l = strings.TrimSpace(l)
		for _, kw := range []string{"(declare-fun " + name + " ", "(define-fun " + name + " "} {
			if strings.HasPrefix(l, kw) {
				rest := l[len(kw):]
				// argument list
				depth, j := 0, 0
				for j = 0; j < len(rest); j++ {
					if rest[j] == '(' {
						depth++
					} else if rest[j] == ')' {
						depth--
						if depth == 0 {
							break
						}
					}
				}
				argText := rest[1:j]
				var d declFun
				if strings.HasPrefix(kw, "(define-fun") {
					// ((a Int) (b Int))
					for _, p := range strings.Split(argText, ")") {
						p = strings.TrimSpace(strings.TrimPrefix(strings.TrimSpace(p), "("))
						f := strings.Fields(p)
						if len(f) == 2 {
							d.args = append(d.args, f[1])
						}
					}
				} else {
					// sorts, some of them compound: (Array Int Val)
					depth, start := 0, -1
					for k := 0; k < len(argText); k++ {
						ch := argText[k]
						switch {
						case ch == '(':
							if depth == 0 {
								start = k
							}
							depth++
						case ch == ')':
							depth--
							if depth == 0 {
								d.args = append(d.args, argText[start:k+1])
								start = -1
							}
						case ch == ' ' || ch == '\t':
							if depth == 0 && start >= 0 {
								d.args = append(d.args, argText[start:k])
								start = -1
							}
						default:
							if depth == 0 && start < 0 {
								start = k
							}
						}
					}
					if start >= 0 && depth == 0 {
						d.args = append(d.args, argText[start:])
					}
				}
				ret := strings.TrimSpace(rest[j+1:])
				if strings.HasPrefix(ret, "(") {
					// a compound sort such as (Array Int Val): the balanced prefix
					depth := 0
					for k := 0; k < len(ret); k++ {
						if ret[k] == '(' {
							depth++
						} else if ret[k] == ')' {
							depth--
							if depth == 0 {
								ret = ret[:k+1]
								break
							}
						}
					}
				} else if k := strings.IndexAny(ret, " )"); k > 0 {
					ret = ret[:k]
				}
				d.ret = ret
				return d, true
			}
		}
	}
	return declFun{}, false
}
