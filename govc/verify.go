package main

// Per-function verification: entry state, contract clauses, exit obligations.

import (
	"fmt"
	"go/token"
	"go/types"
	"strings"

	"golang.org/x/tools/go/ssa"
)

type Options struct {
	Timeout   int // seconds per query
	Jobs      int
	KeepSMT   string
	Verbose   bool
	Vacuity   bool
	Seed      int
	Thorough  bool
	GhostOnly bool // only ghost assertions are obligations (trusted function)
}

// effectiveClauses: a method's own clauses plus those of the interface contracts it implements.
func (w *World) effectiveClauses(blk *Block) (cl []*Clause, ifaceBlocks []*Block) {
	_ = strings.TrimSpace
	return blk.Clauses, nil
}

func (w *World) verifyFunction(fn *ssa.Function, blk *Block, opts *Options) *Exec {
	ex := &Exec{w: w, fn: fn, block: blk, kindN: map[string]int{}, opts: opts}
	ex.entry = &State{vals: map[ssa.Value]SVal{}, heaps: map[string]string{}, heapAlloc: map[string]string{}, inLoop: map[*ssa.BasicBlock]bool{}}
	blk.used = true
	st := ex.entry
	st.alloc = ex.fresh("alloc0", "Int")
	st.assume(lt("0", st.alloc))
	for _, g := range w.globalOrder() {
		st.assume(lt(w.globalRef(g), st.alloc))
		// package-level variables that are plain cells are never written after initialisation
		// (any store would need ownership, and read-only locations are never owned)
		if et := derefType(g.Type()); !isStructType(et) && !isArrayType(et) {
			st.assume("(RO " + w.globalRef(g) + ")")
			ch := w.cellHeap(et)
			ex.pins = append(ex.pins, listedLoc{heap: ch, ref: w.globalRef(g)})
			if sl, ok := et.Underlying().(*types.Slice); ok {
				// the backing array of a package-level slice (emptyList, fullList) is read-only too
				ex.pins = append(ex.pins, listedLoc{heap: w.elemHeap(sl.Elem()), ref: sArr(sel(ex.heapTerm(st, ch), w.globalRef(g)))})
			}
		}
	}
	for _, f := range w.funcConstOrder {
		st.assume(lt(f, st.alloc))
	}
	// parameters
	var args []SVal
	for _, p := range fn.Params {
		c := ex.fresh(fnShort(fn)+"_"+p.Name(), w.sortOf(p.Type()))
		ex.assumeWF(st, p.Type(), c)
		sv := SVal{T: c}
		st.vals[p] = sv
		args = append(args, sv)
	}
	for _, fv := range fn.FreeVars {
		// captured variables are pointers to cells
		c := ex.fresh(fnShort(fn)+"_fv_"+fv.Name(), "Int")
		st.assume(and(lt("0", c), lt(c, st.alloc)))
		et := derefType(fv.Type())
		sv := SVal{T: c}
		if !(isStructType(et) && !isEmptyStruct(et)) && !isArrayType(et) {
			sv.Loc = &Loc{Heap: w.cellHeap(et), Ref: c, Elem: et}
		}
		st.vals[fv] = sv
	}
	// the nil map: no keys, length 0 (never written: a store into a nil map panics and is an obligation)
	{
		_, dh, lh := ex.mapHeaps(st)
		st.assume(eq(sel(lh, "0"), "0"))
		st.assume(fmt.Sprintf("(forall ((m Int)) (! (<= 0 (select %s m)) :pattern ((select %s m))))", lh, lh))
		st.assume(fmt.Sprintf("(forall ((k Str)) (! (not (select (select %s 0) k)) :pattern ((select (select %s 0) k))))", dh, dh))
	}
	// ownership ghost
	mineH := w.ghostHeap("G_mine")
	mine0 := ex.heapTerm(st, mineH)
	st.assume(fmt.Sprintf("(forall ((x Int)) (! (=> (select %s x) (and (< 0 x) (< x %s) (not (RO x)))) :pattern ((select %s x))))", mine0, st.alloc, mine0))

	if blk.Parsetime {
		// parse-time regime: the tree under construction is wholly owned by the running Parse
		st.assume(fmt.Sprintf("(forall ((x Int)) (! (=> (and (< 0 x) (< x %s) (not (RO x))) (select %s x)) :pattern ((select %s x))))", st.alloc, mine0, mine0))
	}
	clauses, _ := w.effectiveClauses(blk)
	env := ex.contractEnv(&Block{Kind: "func"}, fn.Signature, args, nil)
	if fn.Signature.Recv() != nil {
		// `this` as a boxed interface value for interface contracts
		recvT := fn.Signature.Recv().Type()
		if _, ok := recvT.Underlying().(*types.Pointer); ok {
			ctor := w.ctorFor(recvT)
			env["this"] = CV{T: "(" + ctor + " " + args[0].T + ")", Sort: "Val"}
			env["self"] = CV{T: args[0].T, Sort: "Int", Type: recvT}
		}
	}
	for i, fv := range fn.FreeVars {
		_ = i
		sv := st.vals[fv]
		if sv.Loc != nil {
			// expose the captured variable by name (its current value at entry)
			et := derefType(fv.Type())
			env[fv.Name()] = CV{T: ex.loadLoc(st, sv.Loc), Sort: w.sortOf(et), Type: et}
		}
	}
	for _, c := range clauses {
		if c.Kind == "implements" {
			if sig := w.ifaceMethodSig(strings.TrimSpace(c.Text)); sig != nil {
				off := len(args) - sig.Params().Len()
				for j := 0; j < sig.Params().Len() && off >= 0; j++ {
					n := sig.Params().At(j).Name()
					if _, ok := env[n]; !ok && n != "" && n != "_" {
						env[n] = CV{T: args[off+j].T, Sort: w.sortOf(sig.Params().At(j).Type()), Type: sig.Params().At(j).Type()}
					}
				}
			}
		}
	}
	ex.params = env
	ctx := &EvalCtx{ex: ex, st: st, old: st, env: env}
	// global state axioms
	for _, lm := range w.specs.Lemmas {
		if !lm.Axiom {
			continue
		}
		t, err := ctx.evalBool(lm.E)
		if err != nil {
			ex.errorf("axiom %s: %v", lm.Name, err)
			continue
		}
		st.assume(t)
	}
	for _, c := range clauses {
		if c.Kind == "requires" || c.Kind == "unfold" {
			t, err := ctx.evalBool(c.E)
			if err != nil {
				ex.errorf("%s: %s: %v", blk.Name, c.Kind, err)
				continue
			}
			st.assume(t)
		}
	}
	// listed locations are owned
	tmp := &Block{Clauses: clauses, Name: blk.Name}
	for _, r := range ex.listedRefs(tmp, ctx) {
		st.assume(listedPermission(mine0, r))
		ex.mineListed = append(ex.mineListed, listedLoc{ref: r})
	}
	for _, c := range clauses {
		if c.Kind == "decreases" {
			m, err := ctx.evalAny(c.E)
			if err == nil {
				ex.measure0 = m.T
			}
		}
	}
	ex.collectWitness(st, fn, args)
	pre := st.clone()
	fr := ex.newFrame(fn, nil, fnName(fn))
	fr.pre = pre
	fr.env0 = env
	fr.onReturn = func(st2 *State, results []SVal) {
		ex.exits++
		env2 := map[string]CV{}
		for k, v := range env {
			env2[k] = v
		}
		bindResults(env2, w, fn.Signature, results)
		post := &EvalCtx{ex: ex, st: st2, old: pre, env: env2}
		for _, c := range clauses {
			if c.Kind != "ensures" {
				continue
			}
			t, err := post.evalBool(c.E)
			if err != nil {
				ex.errorf("%s: ensures %s: %v", blk.Name, c.Label, err)
				continue
			}
			label := c.Label
			if label == "" {
				label = fmt.Sprintf("E%d", c.Line)
			}
			if c.Checked && ex.opts != nil && ex.opts.GhostOnly {
				ex.oblige(fr, st2, "ghost-post", label, token.NoPos, t)
				continue
			}
			ex.oblige(fr, st2, "post", label, token.NoPos, t)
		}
		for _, c := range clauses {
			if c.Kind == "acquires" {
				v, err := post.evalAny(c.E)
				if err != nil {
					ex.errorf("%s: acquires: %v", blk.Name, err)
					continue
				}
				held := ex.heapTerm(st2, w.ghostHeap("G_held"))
				mine := ex.heapTerm(st2, w.ghostHeap("G_mine"))
				ex.oblige(fr, st2, "post", "acquires", token.NoPos, and(sel(held, v.T), sel(mine, v.T)))
			}
		}
		if opts.Vacuity {
			o := len(ex.obls)
			ex.oblige(fr, st2, "vacuity", "exit", token.NoPos, "false")
			if len(ex.obls) > o {
				ex.obls[len(ex.obls)-1].MustFail = true
			}
		}
	}
	run := st.clone()
	if opts.Vacuity {
		ex.oblige(fr, run, "vacuity", "entry", token.NoPos, "false")
		ex.obls[len(ex.obls)-1].MustFail = true
	}
	func() {
		defer func() {
			if r := recover(); r != nil {
				if ee, ok := r.(evalErr); ok {
					ex.errorf("%s: %s", blk.Name, ee.msg)
					return
				}
				// a construct outside the supported subset (on an edited tree): the obligations of this
				// function can no longer be generated - reported as such, never a crash of the run
				ex.errorf("%s: construct outside the supported subset: %v", blk.Name, r)
			}
		}()
		ex.execBlock(fr, fn.Blocks[0], run, nil)
	}()
	// a ghost assertion or loop-exit clause whose site no longer exists carries an obligation that can no longer be generated
	for _, c := range clauses {
		if (c.Kind == "before" || c.Kind == "after" || c.Kind == "loop-exit" || c.Kind == "loop-step" || c.Kind == "case-assume" || c.Kind == "case-ensures") && !c.hit {
			where := fmt.Sprintf("loop %d", c.Loop)
			if len(c.Names) > 0 {
				where = c.Names[0]
			}
			ex.errorf("%s: %s clause %q: no such site (%s) on any executed path", blk.Name, c.Kind, c.Label, where)
		}
	}
	return ex
}

func (w *World) globalOrder() []*ssa.Global {
	var out []*ssa.Global
	for _, m := range w.pkg.Members {
		if g, ok := m.(*ssa.Global); ok {
			out = append(out, g)
		}
	}
	// stable order
	for i := 0; i < len(out); i++ {
		for j := i + 1; j < len(out); j++ {
			if out[j].Name() < out[i].Name() {
				out[i], out[j] = out[j], out[i]
			}
		}
	}
	return out
}

// collectWitness lists the entry-state terms a replay needs: parameters and the scalar fields
// reachable from them through pointers (depth <= 3).
func (ex *Exec) collectWitness(st *State, fn *ssa.Function, args []SVal) {
	var walk func(name, term string, t types.Type, depth int)
	walk = func(name, term string, t types.Type, depth int) {
		switch u := t.Underlying().(type) {
		case *types.Basic:
			ex.witness = append(ex.witness, witnessTerm{name, term, ex.w.sortOf(t)})
		case *types.Slice:
			ex.witness = append(ex.witness, witnessTerm{"len(" + name + ")", sLen(term), "Int"})
			ex.witness = append(ex.witness, witnessTerm{"cap(" + name + ")", sCap(term), "Int"})
			if depth < 2 {
				h := ex.w.elemHeap(u.Elem())
				for i := 0; i < 4; i++ {
					walk(fmt.Sprintf("%s[%d]", name, i), sel(sel(ex.heapTerm(st, h), sArr(term)), idxT(sOff(term), fmt.Sprint(i))), u.Elem(), depth+1)
				}
			}
		case *types.Interface:
			ex.witness = append(ex.witness, witnessTerm{name, term, "Val"})
		case *types.Pointer:
			ex.witness = append(ex.witness, witnessTerm{name + "!=nil", not(eq(term, "0")), "Bool"})
			if s, ok := u.Elem().Underlying().(*types.Struct); ok && depth < 3 {
				for i := 0; i < s.NumFields(); i++ {
					ft := s.Field(i).Type()
					if isStructType(ft) {
						continue
					}
					h := ex.w.fieldHeap(u.Elem(), i)
					walk(name+"."+s.Field(i).Name(), sel(ex.heapTerm(st, h), term), ft, depth+1)
				}
			}
		}
	}
	for i, p := range fn.Params {
		if i < len(args) {
			walk(p.Name(), args[i].T, p.Type(), 0)
		}
	}
}

// ifaceMethodSig finds the signature of "I.m" for an interface type I of the package.
func (w *World) ifaceMethodSig(name string) *types.Signature {
	k := strings.LastIndex(name, ".")
	if k < 0 {
		return nil
	}
	obj := w.pkg.Pkg.Scope().Lookup(name[:k])
	if obj == nil {
		return nil
	}
	it, ok := obj.Type().Underlying().(*types.Interface)
	if !ok {
		return nil
	}
	for i := 0; i < it.NumMethods(); i++ {
		if it.Method(i).Name() == name[k+1:] {
			return it.Method(i).Type().(*types.Signature)
		}
	}
	return nil
}
