package main

// Forward symbolic execution of go/ssa functions, generating obligations.

import (
	"fmt"
	"go/constant"
	"go/token"
	"go/types"
	"sort"
	"strings"

	"golang.org/x/tools/go/ssa"
)

type loopInfo struct {
	header *ssa.BasicBlock
	body   map[*ssa.BasicBlock]bool
	ord    int
	writes map[string]bool
}

// Frame is one function activation (the function under contract, or an inlined callee / closure).
type Frame struct {
	ex       *Exec
	fn       *ssa.Function
	parent   *Frame
	depth    int
	onReturn func(st *State, results []SVal)
	loops    map[*ssa.BasicBlock]*loopInfo
	block    *Block
	prefix   string
	measure0 map[*ssa.BasicBlock]string
	pre      *State // state at frame entry (for old() in loop invariants of inlined callees)
	env0     map[string]CV
}

func (w *World) globalRef(g *ssa.Global) string {
	if n, ok := w.globals[g]; ok {
		return n
	}
	n := "g_" + sanitize(g.Name())
	w.globals[g] = n
	return n
}

func (w *World) funcConst(fn *ssa.Function) string {
	return "fn_" + sanitize(fn.String())
}

var thePkgPath string

func fnName(fn *ssa.Function) string {
	s := fn.String()
	// own package: (*github.com/x/y.T).m -> (*T).m ; other packages: (*sync.Pool).Get, (json.Number).Float64
	if thePkgPath != "" {
		s = strings.ReplaceAll(s, thePkgPath+".", "")
	}
	pkg := fn.Pkg
	if pkg == nil && fn.Parent() != nil {
		pkg = fn.Parent().Pkg
	}
	if pkg != nil && pkg.Pkg.Path() != thePkgPath && pkg.Pkg.Path() != pkg.Pkg.Name() {
		s = strings.ReplaceAll(s, pkg.Pkg.Path()+".", pkg.Pkg.Name()+".")
	}
	return s
}

func (ex *Exec) newFrame(fn *ssa.Function, parent *Frame, prefix string) *Frame {
	fr := &Frame{ex: ex, fn: fn, parent: parent, prefix: prefix, measure0: map[*ssa.BasicBlock]string{}}
	if parent != nil {
		fr.depth = parent.depth + 1
	}
	fr.block = ex.w.specs.get("func", fnName(fn))
	if parent == nil && ex.block != nil && ex.block.Kind == "cases" {
		fr.block = ex.block // the function is verified against its per-case contracts
	}
	if fr.block != nil {
		fr.block.used = true
	}
	fr.loops = findLoops(ex.w, fn)
	return fr
}

// findLoops: natural loops by back edges (header dominates the source of the edge).
func findLoops(w *World, fn *ssa.Function) map[*ssa.BasicBlock]*loopInfo {
	loops := map[*ssa.BasicBlock]*loopInfo{}
	for _, b := range fn.Blocks {
		for _, s := range b.Succs {
			if s.Dominates(b) {
				li := loops[s]
				if li == nil {
					li = &loopInfo{header: s, body: map[*ssa.BasicBlock]bool{s: true}}
					loops[s] = li
				}
				// collect body: blocks that reach b without passing through s
				var stack []*ssa.BasicBlock
				if !li.body[b] {
					li.body[b] = true
					stack = append(stack, b)
				}
				for len(stack) > 0 {
					x := stack[len(stack)-1]
					stack = stack[:len(stack)-1]
					for _, p := range x.Preds {
						if !li.body[p] {
							li.body[p] = true
							stack = append(stack, p)
						}
					}
				}
			}
		}
	}
	var hs []*ssa.BasicBlock
	for h := range loops {
		hs = append(hs, h)
	}
	sort.Slice(hs, func(i, j int) bool { return hs[i].Index < hs[j].Index })
	for i, h := range hs {
		loops[h].ord = i + 1
		var blocks []*ssa.BasicBlock
		for b := range loops[h].body {
			blocks = append(blocks, b)
		}
		sort.Slice(blocks, func(a, b int) bool { return blocks[a].Index < blocks[b].Index })
		loops[h].writes = w.blockWrites(fn, blocks)
	}
	return loops
}

// ------------------------------------------------------------------ values

func (ex *Exec) constVal(c *ssa.Const) SVal {
	t := c.Type()
	if c.Value == nil {
		return SVal{T: ex.w.zeroOf(t)}
	}
	switch ex.w.sortOf(t) {
	case "Int":
		if c.Value.Kind() == constant.Int {
			s := c.Value.ExactString()
			if strings.HasPrefix(s, "-") {
				return SVal{T: "(- " + s[1:] + ")"}
			}
			return SVal{T: s}
		}
	case "Bool":
		if constant.BoolVal(c.Value) {
			return SVal{T: "true"}
		}
		return SVal{T: "false"}
	case "Str":
		return SVal{T: ex.w.strConst(constant.StringVal(c.Value))}
	case "F64":
		f, _ := constant.Float64Val(c.Value)
		return SVal{T: fmt.Sprintf("((_ to_fp 11 53) RNE %s)", smtReal(f))}
	}
	ex.errorf("unsupported constant %s", c)
	return SVal{T: "0"}
}

func smtReal(f float64) string {
	s := fmt.Sprintf("%.17g", f)
	neg := strings.HasPrefix(s, "-")
	s = strings.TrimPrefix(s, "-")
	if strings.ContainsAny(s, "e") {
		// rational via big
		r := constant.MakeFloat64(f)
		num, den := constant.Num(r), constant.Denom(r)
		s = "(/ " + strings.TrimPrefix(num.ExactString(), "-") + ".0 " + den.ExactString() + ".0)"
	} else if !strings.Contains(s, ".") {
		s += ".0"
	}
	if neg {
		return "(- " + s + ")"
	}
	return s
}

func (ex *Exec) val(fr *Frame, st *State, v ssa.Value) SVal {
	switch x := v.(type) {
	case *ssa.Const:
		return ex.constVal(x)
	case *ssa.Global:
		ref := ex.w.globalRef(x)
		et := derefType(x.Type())
		if (isStructType(et) && !isEmptyStruct(et)) || isArrayType(et) {
			return SVal{T: ref}
		}
		return SVal{T: ref, Loc: &Loc{Heap: ex.w.cellHeap(et), Ref: ref, Elem: et}}
	case *ssa.Function:
		return SVal{T: ex.w.funcConst(x)}
	}
	if sv, ok := st.vals[v]; ok {
		return sv
	}
	ex.errorf("%s: value %s (%T) not available on this path", fnName(fr.fn), v.Name(), v)
	return SVal{T: ex.fresh("undef", ex.w.sortOf(v.Type()))}
}

// ------------------------------------------------------------------ obligations

func (ex *Exec) oblige(fr *Frame, st *State, kind, label string, pos token.Pos, goal string) {
	if goal == "true" {
		return
	}
	if ex.opts != nil && ex.opts.GhostOnly && kind != "assert" && kind != "loop-exit" && kind != "loop-step" && kind != "ghost-post" {
		return
	}
	name := fr.prefix + "#" + kind
	if label != "" {
		name += "(" + label + ")"
	}
	key := name
	ex.kindN[key]++
	name = fmt.Sprintf("%s#%d", name, ex.kindN[key])
	o := &Obligation{
		Name: name, Kind: kind, Fn: fnName(ex.fn), Label: label, Goal: goal,
		PC: append([]string(nil), st.pc...), NDecl: len(ex.decls), ex: ex,
		Trail: strings.Join(st.trail, ">"),
	}
	o.witness = ex.witness
	if pos.IsValid() {
		p := ex.w.prog.Fset.Position(pos)
		o.Pos = fmt.Sprintf("%s:%d", shortFile(p.Filename), p.Line)
	}
	if ex.block != nil {
		o.Props = ex.block.Props
	}
	ex.obls = append(ex.obls, o)
}

func shortFile(p string) string {
	if k := strings.LastIndex(p, "/"); k >= 0 {
		return p[k+1:]
	}
	return p
}

// check emits an obligation and then assumes it (execution continues on the safe side).
func (ex *Exec) check(fr *Frame, st *State, kind, label string, pos token.Pos, goal string) {
	if ex.block != nil && ex.block.Parsetime && (kind == "frame-store" || kind == "frame-call") {
		// parse-time regime: the tree under construction (and the parser object) is wholly owned by the
		// running Parse; ownership obligations carry nothing there.  That package-level read-only
		// variables are not stored to is a separate structural check (readonlyglobals).
		return
	}
	ex.oblige(fr, st, kind, label, pos, goal)
	st.assume(goal)
}

// ------------------------------------------------------------------ blocks

func (ex *Exec) execBlock(fr *Frame, b *ssa.BasicBlock, st *State, pred *ssa.BasicBlock) {
	ex.paths++
	if ex.paths > 200000 {
		ex.errorf("path budget exceeded in %s", fnName(ex.fn))
		return
	}
	st.trail = append(st.trail, fmt.Sprintf("%d", b.Index))
	// phi nodes
	var phis []*ssa.Phi
	for _, in := range b.Instrs {
		if p, ok := in.(*ssa.Phi); ok {
			phis = append(phis, p)
		} else {
			break
		}
	}
	phiVals := make([]SVal, len(phis))
	if pred != nil {
		idx := -1
		for i, p := range b.Preds {
			if p == pred {
				idx = i
			}
		}
		for i, p := range phis {
			phiVals[i] = ex.val(fr, st, p.Edges[idx])
		}
	}
	// the values the loop-carried variables had when this iteration began (for `loop N step` clauses)
	var prevPhi map[string]SVal
	if li := fr.loops[b]; li != nil && st.inLoop[b] && len(fr.loopClausesOf(li, "loop-step")) > 0 {
		prevPhi = map[string]SVal{}
		for _, p := range phis {
			if v, ok := st.vals[p]; ok && p.Comment != "" {
				prevPhi[p.Comment] = v
			}
		}
	}
	for i, p := range phis {
		st.vals[p] = phiVals[i]
	}
	if pred != nil {
		// an edge leaving a loop: `loop N exit` clauses hold there (in terms of the loop-carried variables)
		for _, li := range fr.loops {
			// the loop's exit block is the successor of its header outside the body: normal exits and `break`s
			// (whose blocks are not part of the natural loop) all arrive there
			if li == nil || li.body[b] || !st.inLoop[li.header] {
				continue
			}
			isDone := false
			for _, sc := range li.header.Succs {
				if sc == b && !li.body[sc] {
					isDone = true
				}
			}
			if !isDone {
				continue
			}
			cls := fr.loopClausesOf(li, "loop-exit")
			if len(cls) == 0 {
				continue
			}
			ctx := ex.loopCtx(fr, li, st)
			for i, c := range cls {
				c.hit = true
				t, err := ctx.evalBool(c.E)
				if err != nil {
					ex.errorf("%s loop %d exit: %v", fnName(fr.fn), li.ord, err)
					continue
				}
				label := c.Label
				if label == "" {
					label = fmt.Sprintf("X%d.%d", li.ord, i+1)
				}
				ex.oblige(fr, st, "loop-exit", label, token.NoPos, t)
			}
		}
	}
	if li := fr.loops[b]; li != nil {
		if st.inLoop[b] && st.caseName != "" {
			ex.leaveCase(fr, st)
		}
		if st.inLoop[b] {
			// back edge: per-iteration assertions (`loop N step`: proved here, in terms of the new values of the
			// loop-carried variables, their values prev_<name> at the start of the iteration, and the locals of the body)
			if cls := fr.loopClausesOf(li, "loop-step"); len(cls) > 0 {
				env := ex.loopEnv(fr, li, st)
				for name, sv := range prevPhi {
					if sv.Loc == nil && sv.Tup == nil {
						for _, in := range b.Instrs {
							if p, ok := in.(*ssa.Phi); ok && p.Comment == name {
								env["prev_"+name] = CV{T: sv.T, Sort: ex.w.sortOf(p.Type()), Type: p.Type()}
							}
						}
					}
				}
				local := map[string]map[ssa.Value]bool{}
				for blk := range li.body {
					for _, in := range blk.Instrs {
						if d, ok := in.(*ssa.DebugRef); ok && !d.IsAddr && d.Object() != nil {
							if _, isVar := d.Object().(*types.Var); !isVar {
								continue
							}
							if _, has := st.vals[d.X]; has {
								if local[d.Object().Name()] == nil {
									local[d.Object().Name()] = map[ssa.Value]bool{}
								}
								local[d.Object().Name()][d.X] = true
							}
						}
					}
				}
				for name, vs := range local {
					if _, ok := env[name]; ok || len(vs) != 1 {
						continue
					}
					for v := range vs {
						if sv := st.vals[v]; sv.Loc == nil && sv.Tup == nil {
							env[name] = CV{T: sv.T, Sort: ex.w.sortOf(v.Type()), Type: v.Type()}
						}
					}
				}
				ctx := &EvalCtx{ex: ex, st: st, old: fr.pre, env: env}
				for i, c := range cls {
					c.hit = true
					t, err := ctx.evalBool(c.E)
					if err != nil {
						// a clause about a local of the body that this path never defined says nothing on this path
						if m := strings.TrimPrefix(err.Error(), "unknown identifier "); m != err.Error() {
							name := strings.Trim(m, "\"")
							isLocal := false
							for blk := range li.body {
								for _, in := range blk.Instrs {
									if d, ok := in.(*ssa.DebugRef); ok && d.Object() != nil && d.Object().Name() == name {
										isLocal = true
									}
								}
							}
							if isLocal {
								continue
							}
						}
						ex.errorf("%s loop %d step: %v", fnName(fr.fn), li.ord, err)
						continue
					}
					label := c.Label
					if label == "" {
						label = fmt.Sprintf("S%d.%d", li.ord, i+1)
					}
					// proved here, then assumed: the invariants' preservation may build on it (stepping stone)
					ex.check(fr, st, "loop-step", label, token.NoPos, t)
				}
			}
			// back edge: invariants must be preserved
			ex.loopClauses(fr, li, st, "inv-pres", true)
			return
		}
		ex.loopClauses(fr, li, st, "inv-init", false)
		// havoc loop-modified state (heaps first: the loop-carried values are bounded by the new allocation counter)
		// local variables living in cells that the loop body never stores to keep their content:
		// only this function (and closures it has not called) can reach them
		type keep struct{ heap, ref, val string }
		var keeps []keep
		stored := map[ssa.Value]bool{}
		unknownStore := false
		for blk := range li.body {
			for _, in := range blk.Instrs {
				if sto, ok := in.(*ssa.Store); ok {
					switch a := sto.Addr.(type) {
					case *ssa.Alloc:
						stored[a] = true
					case *ssa.FieldAddr, *ssa.IndexAddr:
					default:
						_ = a
						unknownStore = true
					}
				}
			}
		}
		if !unknownStore {
			for v, sv := range st.vals {
				al, ok := v.(*ssa.Alloc)
				if !ok || sv.Loc == nil || stored[al] || al.Parent() != fr.fn {
					continue
				}
				keeps = append(keeps, keep{sv.Loc.Heap, sv.Loc.Ref, ex.loadLoc(st, sv.Loc)})
			}
		}
		var localRefs []string
		for v, sv := range st.vals {
			if al, ok := v.(*ssa.Alloc); ok && al.Parent() == fr.fn {
				if sv.Loc != nil {
					localRefs = append(localRefs, sv.Loc.Ref)
				} else if sv.T != "" {
					localRefs = append(localRefs, sv.T)
				}
			}
		}
		sort.Strings(localRefs)
		ex.havocLoop(st, li.writes)
		if li.writes[ex.w.ghostHeap("G_mine")] {
			// locals allocated by this function stay owned: only pool objects are ever released
			mh := ex.heapTerm(st, ex.w.ghostHeap("G_mine"))
			for _, r := range localRefs {
				st.assume(sel(mh, r))
			}
		}
		for _, k := range keeps {
			if li.writes[k.heap] {
				st.assume(eq(sel(ex.heapTerm(st, k.heap), k.ref), k.val))
			}
		}
		var lenTerm string
		if len(b.Instrs) > 0 {
			if iff, ok := b.Instrs[len(b.Instrs)-1].(*ssa.If); ok {
				if cmp, ok := iff.Cond.(*ssa.BinOp); ok && cmp.Op == token.LSS {
					if sv, ok := st.vals[cmp.Y]; ok && sv.Loc == nil && sv.Tup == nil {
						lenTerm = sv.T
					}
				}
			}
		}
		for _, p := range phis {
			c := ex.fresh(fnShort(fr.fn)+"_"+p.Comment, ex.w.sortOf(p.Type()))
			st.vals[p] = SVal{T: c}
			ex.assumeWF(st, p.Type(), c)
			if p.Comment == "rangeindex" {
				// built-in invariant of range loops: the hidden counter starts at -1, only increments,
				// and stays below the length evaluated before the loop
				st.assume(le("(- 1)", c))
				if lenTerm != "" {
					st.assume(lt(c, lenTerm))
				}
			}
		}
		for blk := range li.body {
			for _, in := range blk.Instrs {
				if nx, ok := in.(*ssa.Next); ok {
					if rng, ok := nx.Iter.(*ssa.Range); ok {
						c := ex.fresh("rangepos", "Int")
						st.assume(le("0", c))
						st.vals[rangePos{rng}] = SVal{T: c}
					}
				}
			}
		}
		st.inLoop[b] = true
		ex.assumeLoopInvariants(fr, li, st)
		if ex.opts != nil && ex.opts.Vacuity {
			// the havocked loop state together with the invariants must be satisfiable
			n0 := len(ex.obls)
			ex.oblige(fr, st, "vacuity", fmt.Sprintf("loop%d", li.ord), token.NoPos, "false")
			if len(ex.obls) > n0 {
				ex.obls[len(ex.obls)-1].MustFail = true
			}
		}
	}
	ex.execInstrs(fr, b, len(phis), st)
}

func fnShort(fn *ssa.Function) string {
	n := fn.Name()
	return sanitize(n)
}

// havocWrites replaces every heap in ws by a fresh version, framed by ownership:
// locations owned by the caller (G_mine) or read-only (RO) and not listed keep their value.
func (ex *Exec) havocWrites(st *State, ws map[string]bool, listed []string, released []string) {
	ex.havocWritesMode(st, ws, listed, released, false)
}

// havocLoop: the state after an arbitrary number of iterations.  The loop body itself may write
// any location it owns, so only read-only locations (and, for heaps that never hold pool objects,
// locations the function does not own) keep their value; everything else must be in the invariant.
func (ex *Exec) havocLoop(st *State, ws map[string]bool) {
	ex.havocWritesMode(st, ws, nil, nil, true)
}

func (ex *Exec) havocWritesMode(st *State, ws map[string]bool, listed []string, released []string, loop bool) {
	if len(ws) == 0 {
		return
	}
	mineH := ex.w.ghostHeap("G_mine")
	mineBefore := ex.heapTerm(st, mineH)
	allocBefore := st.alloc
	var names []string
	for h := range ws {
		names = append(names, h)
	}
	sort.Strings(names)
	notListed := func(x string, extra []string) string {
		var cs []string
		for _, l := range listed {
			cs = append(cs, not(eq(x, l)))
		}
		for _, l := range extra {
			cs = append(cs, not(eq(x, l)))
		}
		return and(cs...)
	}
	if ws["alloc"] {
		na := ex.fresh("alloc", "Int")
		st.assume(le(allocBefore, na))
		st.alloc = na
	}
	for _, h := range names {
		if h == "alloc" {
			continue
		}
		old := ex.heapTerm(st, h)
		nw := ex.havocHeap(st, h)
		if strings.HasPrefix(h, "A_") {
			// anchors: name the new contents of every slice value in scope, so that the frame
			// axioms (triggered on (select H' x)) fire for them without waiting for a load
			es := strings.TrimPrefix(h, "A_")
			seen := map[string]bool{}
			for v, sv := range st.vals {
				if sv.Loc != nil || sv.Tup != nil || sv.T == "" {
					continue
				}
				sl, ok := v.Type().Underlying().(*types.Slice)
				if !ok || ex.w.sortOf(sl.Elem()) != es {
					continue
				}
				a := sArr(sv.T)
				if seen[a] {
					continue
				}
				seen[a] = true
				c := ex.fresh("anchor", "(Array Int "+es+")")
				st.assume(eq(c, sel(nw, a)))
			}
		}
		for _, pin := range ex.pins {
			if pin.heap == h {
				// shortcut for read-only package-level locations: equal to the entry heap (no frame chain needed)
				st.assume(eq(sel(nw, pin.ref), sel(ex.entry.heaps[h], pin.ref)))
			}
		}
		x := "x!f"
		switch h {
		case mineH:
			if loop {
				st.assume(fmt.Sprintf("(forall ((%s Int)) (! (=> (select %s %s) (and (< 0 %s) (not (RO %s)))) :pattern ((select %s %s))))", x, nw, x, x, x, nw, x))
				continue
			}
			// permissions are kept (except released ones); owned locations are never read-only
			st.assume(fmt.Sprintf("(forall ((%s Int)) (! (and (=> (and (select %s %s) %s) (select %s %s)) (=> (select %s %s) (and (< 0 %s) (not (RO %s))))) :pattern ((select %s %s))))",
				x, old, x, releasedGuard(x, released), nw, x, nw, x, x, x, nw, x))
		case "G_esc":
			if loop {
				continue
			}
			guard := and(sel(mineBefore, x), notListed(x, nil))
			st.assume(fmt.Sprintf("(forall ((%s Int)) (! (=> %s (= (select %s %s) (select %s %s))) :pattern ((select %s %s))))",
				x, guard, nw, x, old, x, nw, x))
		default:
			guard := or(and(sel(mineBefore, x), notListed(x, nil)), "(RO "+x+")")
			if !poolCapable(h) {
				// only pool objects can change hands without being lent: every other pre-existing,
				// unlisted location is out of the callee's reach (writes need ownership)
				guard = and(lt(x, allocBefore), notListed(x, nil))
			}
			if loop {
				guard = "(RO " + x + ")"
				if !poolCapable(h) {
					guard = or("(RO "+x+")", and(lt(x, allocBefore), not(sel(mineBefore, x))))
				}
			}
			st.assume(fmt.Sprintf("(forall ((%s Int)) (! (=> %s (= (select %s %s) (select %s %s))) :pattern ((select %s %s))))",
				x, guard, nw, x, old, x, nw, x))
		}
	}
}

func poolCapable(h string) bool {
	switch h {
	case "F_bufferContainer_result", "C_Slice", "A_Val", "A_Str":
		return true
	}
	return strings.HasPrefix(h, "G_")
}

func releasedGuard(x string, released []string) string {
	var cs []string
	for _, l := range released {
		cs = append(cs, or(not(eq(x, l)), eq(l, "0")))
	}
	return and(cs...)
}

// ------------------------------------------------------------------ loops

func (ex *Exec) loopEnv(fr *Frame, li *loopInfo, st *State) map[string]CV {
	env := map[string]CV{}
	for k, v := range fr.env0 {
		env[k] = v
	}
	// unique DebugRef bindings
	cands := map[string]map[ssa.Value]bool{}
	addrVars := map[string]CV{}
	defer func() {
		for n, v := range addrVars {
			if _, ok := env[n]; !ok {
				env[n] = v
			}
		}
	}()
	for _, b := range fr.fn.Blocks {
		for _, in := range b.Instrs {
			if al, ok := in.(*ssa.Alloc); ok && al.Comment != "" {
				// a source variable living in a cell (captured by a closure): its current content
				if sv, ok := st.vals[al]; ok && sv.Loc != nil {
					if _, dup := addrVars[al.Comment]; !dup {
						addrVars[al.Comment] = CV{T: ex.loadLoc(st, sv.Loc), Sort: ex.w.sortOf(sv.Loc.Elem), Type: sv.Loc.Elem}
					}
				} else if ok && sv.Loc == nil && sv.Tup == nil && isStructType(derefType(al.Type())) {
					// a local struct variable: the name denotes (a pointer to) the struct object, so fields can be read
					if _, dup := addrVars[al.Comment]; !dup {
						addrVars[al.Comment] = CV{T: sv.T, Sort: "Int", Type: al.Type()}
					}
				}
				continue
			}
			if d, ok := in.(*ssa.DebugRef); ok && d.IsAddr {
				// variable living in a cell (captured by a closure): its current content
				obj := d.Object()
				if obj == nil {
					continue
				}
				if _, isVar := obj.(*types.Var); !isVar {
					continue
				}
				if sv, ok := st.vals[d.X]; ok && sv.Loc != nil {
					if _, dup := addrVars[obj.Name()]; !dup {
						addrVars[obj.Name()] = CV{T: ex.loadLoc(st, sv.Loc), Sort: ex.w.sortOf(sv.Loc.Elem), Type: sv.Loc.Elem}
					}
				}
				continue
			}
			if d, ok := in.(*ssa.DebugRef); ok && !d.IsAddr {
				obj := d.Object()
				if obj == nil {
					continue
				}
				if _, isVar := obj.(*types.Var); !isVar {
					continue
				}
				// only references that are in scope at the loop: their block dominates the header
				if li != nil && !(b == li.header || b.Dominates(li.header)) {
					continue
				}
				n := obj.Name()
				if cands[n] == nil {
					cands[n] = map[ssa.Value]bool{}
				}
				cands[n][d.X] = true
			}
		}
	}
	for n, vs := range cands {
		// values available on this path and defined outside the loop body
		var avail []ssa.Value
		for v := range vs {
			if _, isConst := v.(*ssa.Const); isConst {
				avail = append(avail, v)
				continue
			}
			if in, ok := v.(ssa.Instruction); ok && li != nil && li.body[in.Block()] {
				if _, isPhi := v.(*ssa.Phi); !(isPhi && in.Block() == li.header) {
					continue
				}
			}
			if _, ok := st.vals[v]; ok {
				avail = append(avail, v)
			} else if _, ok := v.(*ssa.Parameter); ok {
				avail = append(avail, v)
			}
		}
		if li != nil && len(avail) > 1 {
			// a variable assigned more than once before the loop: the definition every other one dominates
			var last ssa.Value
			for _, v := range avail {
				vi, ok := v.(ssa.Instruction)
				if !ok {
					continue
				}
				isLast := true
				for _, u := range avail {
					if u == v {
						continue
					}
					ui, ok := u.(ssa.Instruction)
					if !ok {
						continue // parameters and constants come first
					}
					if ui.Block() == vi.Block() {
						for _, in := range vi.Block().Instrs {
							if in == ui {
								break
							}
							if in == vi {
								isLast = false
								break
							}
						}
					} else if !ui.Block().Dominates(vi.Block()) {
						isLast = false
					}
				}
				if isLast {
					if last != nil {
						last = nil
						break
					}
					last = v
				}
			}
			if last != nil {
				avail = []ssa.Value{last}
			}
		}
		if li == nil && len(avail) > 1 {
			// inside loops: the loop-carried variable of that name of the innermost active loop
			var phis []ssa.Value
			for _, v := range avail {
				if p, ok := v.(*ssa.Phi); ok && p.Comment == n && st.inLoop[p.Block()] {
					phis = append(phis, v)
				}
			}
			if len(phis) == 1 {
				avail = phis
			}
		}
		if len(avail) == 1 {
			sv := ex.val(fr, st, avail[0])
			if sv.Loc == nil && sv.Tup == nil {
				env[n] = CV{T: sv.T, Sort: ex.w.sortOf(avail[0].Type()), Type: avail[0].Type()}
			}
		}
	}
	for _, b := range fr.fn.Blocks {
		for _, in := range b.Instrs {
			if rng, ok := in.(*ssa.Range); ok {
				if pv, ok := st.vals[rangePos{rng}]; ok {
					env["rangepos"] = CV{T: pv.T, Sort: "Int", Type: types.Typ[types.Int]}
					it := st.vals[rng]
					if len(it.Tup) == 3 {
						env["rangeiter"] = CV{T: it.Tup[0].T, Sort: "Int", Type: types.Typ[types.Int]}
						env["rangelen"] = CV{T: it.Tup[2].T, Sort: "Int", Type: types.Typ[types.Int]}
					}
				}
			}
		}
	}
	for h, l2 := range fr.loops {
		for _, in := range h.Instrs {
			p, ok := in.(*ssa.Phi)
			if !ok {
				break
			}
			if p.Comment == "rangeindex" {
				if sv, ok := st.vals[p]; ok {
					env[fmt.Sprintf("rangeindex%d", l2.ord)] = CV{T: sv.T, Sort: "Int", Type: types.Typ[types.Int]}
				}
			}
		}
		// the collection a rangeindex loop iterates over: operand of the len() feeding the loop test
		if len(h.Instrs) > 0 {
			if iff, ok := h.Instrs[len(h.Instrs)-1].(*ssa.If); ok {
				if cmp, ok := iff.Cond.(*ssa.BinOp); ok {
					if call, ok := cmp.Y.(*ssa.Call); ok {
						if b, ok := call.Call.Value.(*ssa.Builtin); ok && b.Name() == "len" && len(call.Call.Args) == 1 {
							x := call.Call.Args[0]
							if sv, ok := st.vals[x]; ok && sv.Loc == nil && sv.Tup == nil {
								env[fmt.Sprintf("rangeslice%d", l2.ord)] = CV{T: sv.T, Sort: ex.w.sortOf(x.Type()), Type: x.Type()}
							} else if _, isParam := x.(*ssa.Parameter); isParam {
								sv := ex.val(fr, st, x)
								env[fmt.Sprintf("rangeslice%d", l2.ord)] = CV{T: sv.T, Sort: ex.w.sortOf(x.Type()), Type: x.Type()}
							}
						}
					}
				}
			}
		}
	}
	if li != nil {
		for _, in := range li.header.Instrs {
			p, ok := in.(*ssa.Phi)
			if !ok {
				break
			}
			if p.Comment != "" {
				sv := st.vals[p]
				env[p.Comment] = CV{T: sv.T, Sort: ex.w.sortOf(p.Type()), Type: p.Type()}
			}
		}
	}
	return env
}

func (fr *Frame) loopClausesOf(li *loopInfo, kind string) []*Clause {
	var out []*Clause
	if fr.block == nil {
		return nil
	}
	for _, c := range fr.block.Clauses {
		if c.Kind == kind && c.Loop == li.ord {
			out = append(out, c)
		}
	}
	return out
}

func (ex *Exec) loopCtx(fr *Frame, li *loopInfo, st *State) *EvalCtx {
	return &EvalCtx{ex: ex, st: st, old: fr.pre, env: ex.loopEnv(fr, li, st)}
}

func (ex *Exec) loopClauses(fr *Frame, li *loopInfo, st *State, kind string, back bool) {
	invs := fr.loopClausesOf(li, "loop-invariant")
	ctx := ex.loopCtx(fr, li, st)
	pos := token.NoPos
	if len(li.header.Instrs) > 0 {
		pos = li.header.Instrs[len(li.header.Instrs)-1].Pos()
	}
	for i, c := range invs {
		t, err := ctx.evalBool(c.E)
		if err != nil {
			ex.errorf("%s loop %d invariant: %v", fnName(fr.fn), li.ord, err)
			continue
		}
		label := c.Label
		if label == "" {
			label = fmt.Sprintf("L%d.%d", li.ord, i+1)
		}
		ex.oblige(fr, st, kind, label, pos, t)
	}
	if back {
		for _, c := range fr.loopClausesOf(li, "loop-decreases") {
			m, err := ctx.evalAny(c.E)
			if err != nil {
				ex.errorf("%s loop %d decreases: %v", fnName(fr.fn), li.ord, err)
				continue
			}
			m0 := fr.measure0[li.header]
			ex.oblige(fr, st, "decreases", fmt.Sprintf("L%d", li.ord), pos, and(le("0", m0), lt(m.T, m0)))
		}
	}
}

func (ex *Exec) assumeLoopInvariants(fr *Frame, li *loopInfo, st *State) {
	ctx := ex.loopCtx(fr, li, st)
	for _, c := range fr.loopClausesOf(li, "loop-invariant") {
		t, err := ctx.evalBool(c.E)
		if err != nil {
			continue
		}
		st.assume(t)
	}
	for _, c := range fr.loopClausesOf(li, "loop-decreases") {
		m, err := ctx.evalAny(c.E)
		if err == nil {
			fr.measure0[li.header] = m.T
		}
	}
	if len(fr.loopClausesOf(li, "loop-decreases")) == 0 {
		ex.noteMissing(fr, fmt.Sprintf("loop %d has no decreases clause (termination of this loop is not proved)", li.ord))
	}
}

func (ex *Exec) noteMissing(fr *Frame, msg string) {
	full := fnName(fr.fn) + ": " + msg
	for _, m := range ex.notes {
		if m == full {
			return
		}
	}
	ex.notes = append(ex.notes, full)
}

// ------------------------------------------------------------------ instructions

func (ex *Exec) execInstrs(fr *Frame, b *ssa.BasicBlock, i int, st *State) {
	for ; i < len(b.Instrs); i++ {
		in := b.Instrs[i]
		switch x := in.(type) {
		case *ssa.DebugRef:
		case *ssa.Alloc:
			ex.doAlloc(fr, st, x)
		case *ssa.UnOp:
			ex.doUnOp(fr, st, x)
		case *ssa.BinOp:
			ex.doBinOp(fr, st, x)
		case *ssa.FieldAddr:
			ex.doFieldAddr(fr, st, x)
		case *ssa.Field:
			sv := ex.val(fr, st, x.X)
			s := x.X.Type().Underlying().(*types.Struct)
			sn := ex.w.structSortName(x.X.Type())
			st.vals[x] = SVal{T: fmt.Sprintf("(%s_%s %s)", sn, s.Field(x.Field).Name(), sv.T)}
		case *ssa.IndexAddr:
			ex.doIndexAddr(fr, st, x)
		case *ssa.Store:
			ex.doStore(fr, st, x)
		case *ssa.Slice:
			ex.doSlice(fr, st, x)
		case *ssa.MakeSlice:
			ex.doMakeSlice(fr, st, x)
		case *ssa.MakeMap:
			r := ex.newRef(st, "map")
			st.assume(eq("(rtype "+r+")", fmt.Sprint(ex.w.typeID("map"))))
			lenH := ex.w.heap("M_len", "(Array Int Int)")
			st.assume(eq(sel(ex.heapTerm(st, lenH), r), "0"))
			domH := ex.w.heap("M_dom", "(Array Int (Array Str Bool))")
			st.assume(eq(sel(ex.heapTerm(st, domH), r), "((as const (Array Str Bool)) false)"))
			st.vals[x] = SVal{T: r}
		case *ssa.MakeInterface:
			sv := ex.val(fr, st, x.X)
			ctor := ex.w.ctorFor(x.X.Type())
			if ex.w.ctorType[ctor] == nil {
				st.vals[x] = SVal{T: ctor}
			} else {
				st.vals[x] = SVal{T: "(" + ctor + " " + sv.T + ")"}
			}
		case *ssa.ChangeInterface:
			st.vals[x] = ex.val(fr, st, x.X)
		case *ssa.ChangeType:
			st.vals[x] = ex.val(fr, st, x.X)
		case *ssa.Convert:
			ex.doConvert(fr, st, x)
		case *ssa.TypeAssert:
			ex.doTypeAssert(fr, st, x)
		case *ssa.Extract:
			tv := ex.val(fr, st, x.Tuple)
			if x.Index < len(tv.Tup) {
				st.vals[x] = tv.Tup[x.Index]
			} else {
				ex.errorf("extract from non-tuple in %s", fnName(fr.fn))
			}
		case *ssa.Index:
			// s[i] on a string value: one byte, index within the length
			if b, ok := x.X.Type().Underlying().(*types.Basic); ok && b.Info()&types.IsString != 0 {
				sv := ex.val(fr, st, x.X)
				idx := ex.val(fr, st, x.Index).T
				ex.check(fr, st, "bounds", "", x.Pos(), and(le("0", idx), lt(idx, "(strlen "+sv.T+")")))
				st.vals[x] = SVal{T: "(byteAt " + sv.T + " " + idx + ")"}
			} else {
				ex.errorf("%s: unsupported instruction %T (%s)", fnName(fr.fn), in, in)
			}
		case *ssa.Lookup:
			ex.doLookup(fr, st, x)
		case *ssa.MapUpdate:
			ex.doMapUpdate(fr, st, x)
		case *ssa.Range:
			ex.doRange(fr, st, x)
		case *ssa.Next:
			ex.doNext(fr, st, x)
		case *ssa.MakeClosure:
			ex.doMakeClosure(fr, st, x)
		case *ssa.Call:
			ex.ghostBefore(fr, st, x)
			var preCall *State
			if fr.block != nil {
				for _, c := range fr.block.Clauses {
					if c.Kind == "after" {
						preCall = st.clone()
						break
					}
				}
			}
			ex.doCall(fr, st, x, x.Common(), func(st2 *State, res SVal) {
				st2.vals[x] = res
				ex.ghostAsserts(fr, st2, x, preCall)
				ex.execInstrs(fr, b, i+1, st2)
			})
			return
		case *ssa.Defer:
			st.defers = append(st.defers, deferred{call: x, frame: fr})
		case *ssa.RunDefers:
			ex.runDefers(fr, st, func(st2 *State) {
				ex.execInstrs(fr, b, i+1, st2)
			})
			return
		case *ssa.If:
			c := ex.val(fr, st, x.Cond).T
			if c != "false" {
				st1 := st.clone()
				st1.assume(c)
				ex.enterCase(fr, st1, x)
				ex.execBlock(fr, b.Succs[0], st1, b)
			}
			if c != "true" {
				st2 := st
				st2.assume(not(c))
				ex.execBlock(fr, b.Succs[1], st2, b)
			}
			return
		case *ssa.Jump:
			ex.execBlock(fr, b.Succs[0], st, b)
			return
		case *ssa.Return:
			var res []SVal
			for _, r := range x.Results {
				res = append(res, ex.val(fr, st, r))
			}
			fr.onReturn(st, res)
			return
		case *ssa.Panic:
			ex.doPanic(fr, st, ex.val(fr, st, x.X), x.Pos())
			return
		default:
			ex.errorf("%s: unsupported instruction %T (%s)", fnName(fr.fn), in, in)
			if v, ok := in.(ssa.Value); ok {
				st.vals[v] = SVal{T: ex.fresh("unsup", ex.w.sortOf(v.Type()))}
			}
		}
	}
}

func (ex *Exec) doAlloc(fr *Frame, st *State, x *ssa.Alloc) {
	et := derefType(x.Type())
	r := ex.newRef(st, fnShort(fr.fn)+"_"+x.Comment)
	if a, ok := et.Underlying().(*types.Array); ok {
		st.assume(eq("(rtype "+r+")", fmt.Sprint(ex.w.typeID("[]"+ex.w.sortOf(a.Elem())))))
	} else {
		st.assume(eq("(rtype "+r+")", fmt.Sprint(ex.w.typeID(refTypeKey(x.Type())))))
	}
	switch {
	case isStructType(et) && !isEmptyStruct(et):
		ex.storeStruct(st, et, r, ex.w.zeroOf(et))
		st.vals[x] = SVal{T: r}
	case isArrayType(et):
		a := et.Underlying().(*types.Array)
		h := ex.w.elemHeap(a.Elem())
		// zero-initialised backing array
		z := ex.w.zeroOf(a.Elem())
		es := ex.w.sortOf(a.Elem())
		ex.setHeap(st, h, sto(ex.heapTerm(st, h), r, "((as const (Array Int "+es+")) "+z+")"))
		st.vals[x] = SVal{T: r}
	default:
		h := ex.w.cellHeap(et)
		ex.setHeap(st, h, sto(ex.heapTerm(st, h), r, ex.w.zeroOf(et)))
		st.vals[x] = SVal{T: r, Loc: &Loc{Heap: h, Ref: r, Elem: et}}
	}
}

// pointerLoc: the location addressed by pointer value sv of Go type ptrT (elem non-struct).
func (ex *Exec) pointerLoc(sv SVal, ptrT types.Type) *Loc {
	if sv.Loc != nil {
		return sv.Loc
	}
	et := derefType(ptrT)
	return &Loc{Heap: ex.w.cellHeap(et), Ref: sv.T, Elem: et}
}

// guardCheck: accesses to a package-level variable declared `guarded X by M` need the mutex held.
func (ex *Exec) guardCheck(fr *Frame, st *State, ref string, pos token.Pos) {
	owner := ex.ownerRef(ref)
	for _, g := range ex.w.specs.Guards {
		gv := ex.w.pkg.Var(g[0])
		mv := ex.w.pkg.Var(g[1])
		if gv == nil || mv == nil {
			continue
		}
		if owner == ex.w.globalRef(gv) {
			held := ex.heapTerm(st, ex.w.ghostHeap("G_held"))
			ex.check(fr, st, "lock-held", g[0], pos, sel(held, ex.w.globalRef(mv)))
		}
	}
}

func (ex *Exec) isPoolLoc(l *Loc) bool {
	if strings.HasSuffix(l.Heap, "bufferContainer_result") {
		return true
	}
	return l.Idx == "" && l.Elem != nil && typeKey(l.Elem) == "sort.StringSlice"
}

func (ex *Exec) doUnOp(fr *Frame, st *State, x *ssa.UnOp) {
	sv := ex.val(fr, st, x.X)
	switch x.Op {
	case token.MUL: // load
		et := derefType(x.X.Type())
		if isStructType(et) {
			if isEmptyStruct(et) {
				st.vals[x] = SVal{T: "unit"}
				return
			}
			ex.check(fr, st, "nil", "", x.Pos(), not(eq(sv.T, "0")))
			st.vals[x] = SVal{T: ex.loadStruct(st, et, sv.T)}
			return
		}
		loc := ex.pointerLoc(sv, x.X.Type())
		if sv.Loc == nil {
			ex.check(fr, st, "nil", "", x.Pos(), not(eq(sv.T, "0")))
		}
		if ex.isPoolLoc(loc) {
			ex.check(fr, st, "use-after-put", "", x.Pos(), sel(ex.heapTerm(st, ex.w.ghostHeap("G_held")), loc.Ref))
		}
		if loc.Idx != "" {
			ex.checkNotGone(fr, st, loc.Ref, x.Pos())
		}
		ex.guardCheck(fr, st, loc.Ref, x.Pos())
		t := ex.loadLoc(st, loc)
		// name the loaded value
		c := ex.fresh(fnShort(fr.fn)+"_"+x.Name(), ex.w.sortOf(et))
		st.assume(eq(c, t))
		ex.assumeWFBelow(st, et, c, ex.heapBound(st, loc.Heap))
		st.vals[x] = SVal{T: c}
	case token.NOT:
		st.vals[x] = SVal{T: not(sv.T)}
	case token.SUB:
		if ex.w.sortOf(x.Type()) == "F64" {
			st.vals[x] = SVal{T: "(fp.neg " + sv.T + ")"}
			return
		}
		r := "(- " + sv.T + ")"
		ex.check(fr, st, "overflow", "", x.Pos(), ex.inRange(x.Type(), r))
		st.vals[x] = SVal{T: r}
	default:
		ex.errorf("%s: unsupported unary %s", fnName(fr.fn), x.Op)
		st.vals[x] = SVal{T: ex.fresh("unsup", ex.w.sortOf(x.Type()))}
	}
}

func (ex *Exec) inRange(t types.Type, term string) string {
	b, ok := t.Underlying().(*types.Basic)
	if !ok {
		return "true"
	}
	switch b.Kind() {
	case types.Int, types.Int64:
		return inInt64(term)
	case types.Int32:
		return and(le("(- 2147483648)", term), le(term, "2147483647"))
	case types.Uint8:
		return and(le("0", term), le(term, "255"))
	case types.Uint32:
		return and(le("0", term), le(term, "4294967295"))
	case types.Uint, types.Uint64, types.Uintptr:
		return and(le("0", term), le(term, "18446744073709551615"))
	}
	return "true"
}

func (ex *Exec) doBinOp(fr *Frame, st *State, x *ssa.BinOp) {
	a, b := ex.val(fr, st, x.X), ex.val(fr, st, x.Y)
	srt := ex.w.sortOf(x.X.Type())
	var r string
	switch x.Op {
	case token.ADD, token.SUB, token.MUL:
		switch srt {
		case "Int":
			op := map[token.Token]string{token.ADD: "+", token.SUB: "-", token.MUL: "*"}[x.Op]
			r = "(" + op + " " + a.T + " " + b.T + ")"
			// signed overflow is silent in Go: the property-level reading "exact arithmetic" makes it an obligation
			ex.check(fr, st, "overflow", "", x.Pos(), ex.inRange(x.Type(), r))
		case "Str":
			r = "(strcat " + a.T + " " + b.T + ")"
		case "F64":
			op := map[token.Token]string{token.ADD: "fp.add RNE", token.SUB: "fp.sub RNE", token.MUL: "fp.mul RNE"}[x.Op]
			r = "(" + op + " " + a.T + " " + b.T + ")"
		}
	case token.EQL, token.NEQ:
		switch srt {
		case "Val":
			// run-time panic when both operands hold the same uncomparable dynamic type
			ex.check(fr, st, "iface-eq", "", x.Pos(),
				not(and(eq("(dyn "+a.T+")", "(dyn "+b.T+")"), not("(comparableV "+a.T+")"))))
			r = "(ifaceEq " + a.T + " " + b.T + ")"
		case "F64":
			r = "(fp.eq " + a.T + " " + b.T + ")"
		case "Slice":
			// only comparison with nil is legal
			if isNilConst(x.Y) {
				r = eq(sArr(a.T), "0")
			} else {
				r = eq(sArr(b.T), "0")
			}
		default:
			r = eq(a.T, b.T)
		}
		if x.Op == token.NEQ {
			r = not(r)
		}
	case token.LSS, token.LEQ, token.GTR, token.GEQ:
		switch srt {
		case "Int":
			op := map[token.Token]string{token.LSS: "<", token.LEQ: "<=", token.GTR: ">", token.GEQ: ">="}[x.Op]
			r = "(" + op + " " + a.T + " " + b.T + ")"
		case "F64":
			op := map[token.Token]string{token.LSS: "fp.lt", token.LEQ: "fp.leq", token.GTR: "fp.gt", token.GEQ: "fp.geq"}[x.Op]
			r = "(" + op + " " + a.T + " " + b.T + ")"
		case "Str":
			switch x.Op {
			case token.LSS:
				r = "(strLt " + a.T + " " + b.T + ")"
			case token.GTR:
				r = "(strLt " + b.T + " " + a.T + ")"
			case token.LEQ:
				r = not("(strLt " + b.T + " " + a.T + ")")
			case token.GEQ:
				r = not("(strLt " + a.T + " " + b.T + ")")
			}
		}
	case token.LAND, token.LOR:
	}
	if r == "" {
		ex.errorf("%s: unsupported binary %s on %s", fnName(fr.fn), x.Op, srt)
		r = ex.fresh("unsup", ex.w.sortOf(x.Type()))
	}
	st.vals[x] = SVal{T: r}
}

func isNilConst(v ssa.Value) bool {
	c, ok := v.(*ssa.Const)
	return ok && c.Value == nil
}

func (ex *Exec) doFieldAddr(fr *Frame, st *State, x *ssa.FieldAddr) {
	sv := ex.val(fr, st, x.X)
	structT := derefType(x.X.Type())
	s := structT.Underlying().(*types.Struct)
	ft := s.Field(x.Field).Type()
	ex.check(fr, st, "nil", "", x.Pos(), not(eq(sv.T, "0")))
	if isStructType(ft) && !isEmptyStruct(ft) {
		st.vals[x] = SVal{T: ex.w.embRef(structT, x.Field, sv.T)}
		return
	}
	h := ex.w.fieldHeap(structT, x.Field)
	st.vals[x] = SVal{T: "0", Loc: &Loc{Heap: h, Ref: sv.T, Elem: ft}}
}

func (ex *Exec) doIndexAddr(fr *Frame, st *State, x *ssa.IndexAddr) {
	sv := ex.val(fr, st, x.X)
	idx := ex.val(fr, st, x.Index).T
	switch u := x.X.Type().Underlying().(type) {
	case *types.Slice:
		ex.check(fr, st, "bounds", "", x.Pos(), and(le("0", idx), lt(idx, sLen(sv.T))))
		if isStructType(u.Elem()) && !isEmptyStruct(u.Elem()) {
			// element of a slice of structs: its fields live at an injective reference
			st.vals[x] = SVal{T: "(elemref " + sArr(sv.T) + " " + idxT(sOff(sv.T), idx) + ")"}
			return
		}
		h := ex.w.elemHeap(u.Elem())
		st.vals[x] = SVal{T: "0", Loc: &Loc{Heap: h, Ref: sArr(sv.T), Idx: idxT(sOff(sv.T), idx), Elem: u.Elem()}}
	case *types.Pointer:
		a := u.Elem().Underlying().(*types.Array)
		ex.check(fr, st, "bounds", "", x.Pos(), and(le("0", idx), lt(idx, fmt.Sprint(a.Len()))))
		h := ex.w.elemHeap(a.Elem())
		st.vals[x] = SVal{T: "0", Loc: &Loc{Heap: h, Ref: sv.T, Idx: idx, Elem: a.Elem()}}
	default:
		ex.errorf("%s: IndexAddr on %s", fnName(fr.fn), x.X.Type())
	}
}

func (ex *Exec) doStore(fr *Frame, st *State, x *ssa.Store) {
	addr := ex.val(fr, st, x.Addr)
	v := ex.val(fr, st, x.Val)
	et := derefType(x.Addr.Type())
	mine := ex.heapTerm(st, ex.w.ghostHeap("G_mine"))
	if isStructType(et) && !isEmptyStruct(et) {
		ex.check(fr, st, "nil", "", x.Pos(), not(eq(addr.T, "0")))
		ex.check(fr, st, "frame-store", "", x.Pos(), sel(mine, ex.ownerRef(addr.T)))
		ex.guardCheck(fr, st, addr.T, x.Pos())
		ex.storeStruct(st, et, addr.T, v.T)
		return
	}
	if isEmptyStruct(et) {
		return
	}
	loc := ex.pointerLoc(addr, x.Addr.Type())
	if addr.Loc == nil {
		ex.check(fr, st, "nil", "", x.Pos(), not(eq(addr.T, "0")))
	}
	ex.check(fr, st, "frame-store", "", x.Pos(), sel(mine, ex.ownerRef(loc.Ref)))
	ex.guardCheck(fr, st, loc.Ref, x.Pos())
	if ex.isPoolLoc(loc) {
		ex.check(fr, st, "use-after-put", "", x.Pos(), sel(ex.heapTerm(st, ex.w.ghostHeap("G_held")), loc.Ref))
	}
	ex.storeLoc(st, loc, v.T)
}

// ownerRef strips emb(...) wrappers: permission is held on the outermost object.
func (ex *Exec) ownerRef(ref string) string {
	for strings.HasPrefix(ref, "(emb ") {
		// (emb N inner)
		rest := ref[len("(emb "):]
		k := strings.Index(rest, " ")
		ref = rest[k+1 : len(rest)-1]
	}
	return ref
}

func (ex *Exec) doSlice(fr *Frame, st *State, x *ssa.Slice) {
	sv := ex.val(fr, st, x.X)
	get := func(v ssa.Value, def string) string {
		if v == nil {
			return def
		}
		return ex.val(fr, st, v).T
	}
	switch u := x.X.Type().Underlying().(type) {
	case *types.Slice:
		lo := get(x.Low, "0")
		hi := get(x.High, sLen(sv.T))
		mx := get(x.Max, sCap(sv.T))
		ex.check(fr, st, "bounds", "", x.Pos(), and(le("0", lo), le(lo, hi), le(hi, mx), le(mx, sCap(sv.T))))
		// slicing a nil slice [0:0] keeps it nil
		st.vals[x] = SVal{T: mkSlice(sArr(sv.T), add(sOff(sv.T), lo), sub(hi, lo), sub(mx, lo))}
	case *types.Pointer:
		a := u.Elem().Underlying().(*types.Array)
		n := fmt.Sprint(a.Len())
		lo := get(x.Low, "0")
		hi := get(x.High, n)
		mx := get(x.Max, n)
		ex.check(fr, st, "bounds", "", x.Pos(), and(le("0", lo), le(lo, hi), le(hi, mx), le(mx, n)))
		st.vals[x] = SVal{T: mkSlice(sv.T, lo, sub(hi, lo), sub(mx, lo))}
	case *types.Basic: // string
		lo := get(x.Low, "0")
		hi := get(x.High, "(strlen "+sv.T+")")
		ex.check(fr, st, "bounds", "", x.Pos(), and(le("0", lo), le(lo, hi), le(hi, "(strlen "+sv.T+")")))
		st.vals[x] = SVal{T: "(substr " + sv.T + " " + lo + " " + hi + ")"}
	default:
		ex.errorf("%s: Slice on %s", fnName(fr.fn), x.X.Type())
	}
}

func (ex *Exec) doMakeSlice(fr *Frame, st *State, x *ssa.MakeSlice) {
	n := ex.val(fr, st, x.Len).T
	c := ex.val(fr, st, x.Cap).T
	ex.check(fr, st, "makelen", "", x.Pos(), and(le("0", n), le(n, c)))
	r := ex.newRef(st, fnShort(fr.fn)+"_"+x.Name())
	u := x.Type().Underlying().(*types.Slice)
	st.assume(eq("(rtype "+r+")", fmt.Sprint(ex.w.typeID("[]"+ex.w.sortOf(u.Elem())))))
	h := ex.w.elemHeap(u.Elem())
	es := ex.w.sortOf(u.Elem())
	ex.setHeap(st, h, sto(ex.heapTerm(st, h), r, "((as const (Array Int "+es+")) "+ex.w.zeroOf(u.Elem())+")"))
	st.vals[x] = SVal{T: mkSlice(r, "0", n, c)}
}

func (ex *Exec) doConvert(fr *Frame, st *State, x *ssa.Convert) {
	sv := ex.val(fr, st, x.X)
	from, to := ex.w.sortOf(x.X.Type()), ex.w.sortOf(x.Type())
	switch {
	case from == "Int" && to == "Int":
		// value-preserving when in range; otherwise wraps: only the in-range case is modelled
		ex.check(fr, st, "overflow", "conv", x.Pos(), ex.inRange(x.Type(), sv.T))
		st.vals[x] = sv
	case from == "Str" && to == "Slice":
		// []byte(s) / []rune(s): fresh array; []byte has length strlen and bytes byteAt
		r := ex.newRef(st, "conv")
		n := ex.fresh("convlen", "Int")
		u := x.Type().Underlying().(*types.Slice)
		if b, ok := u.Elem().Underlying().(*types.Basic); ok && b.Kind() == types.Int32 {
			st.assume(eq(n, "(runeCount "+sv.T+")"))
			h := ex.w.elemHeap(u.Elem())
			st.assume(eq(sel(ex.heapTerm(st, h), r), "(runesOf "+sv.T+")"))
		}
		if b, ok := u.Elem().Underlying().(*types.Basic); ok && b.Kind() == types.Uint8 {
			st.assume(eq(n, "(strlen "+sv.T+")"))
			h := ex.w.elemHeap(u.Elem())
			st.assume(fmt.Sprintf("(forall ((k Int)) (! (=> (and (<= 0 k) (< k %s)) (= (select (select %s %s) k) (byteAt %s k))) :pattern ((select (select %s %s) k))))",
				n, ex.heapTerm(st, h), r, sv.T, ex.heapTerm(st, h), r))
		} else {
			st.assume(and(le("0", n), le(n, "(strlen "+sv.T+")")))
		}
		st.vals[x] = SVal{T: mkSlice(r, "0", n, n)}
	case from == "Slice" && to == "Str":
		c := ex.fresh("convstr", "Str")
		u := x.X.Type().Underlying().(*types.Slice)
		if b, ok := u.Elem().Underlying().(*types.Basic); ok && b.Kind() == types.Uint8 {
			st.assume(eq("(strlen "+c+")", sLen(sv.T)))
		}
		if b, ok := u.Elem().Underlying().(*types.Basic); ok && b.Kind() == types.Int32 {
			h := ex.w.elemHeap(u.Elem())
			st.assume(eq(c, "(strOfRunes "+sel(ex.heapTerm(st, h), sArr(sv.T))+" "+sOff(sv.T)+" "+sLen(sv.T)+")"))
		}
		st.vals[x] = SVal{T: c}
	default:
		ex.errorf("%s: unsupported conversion %s -> %s", fnName(fr.fn), x.X.Type(), x.Type())
		st.vals[x] = SVal{T: ex.fresh("unsup", to)}
	}
}

func (ex *Exec) typeTest(v string, t types.Type) string {
	if iface, ok := t.Underlying().(*types.Interface); ok {
		var ds []string
		for _, c := range ex.w.implementers(iface) {
			ds = append(ds, "((_ is "+c+") "+v+")")
		}
		// any other Go type may implement the interface too
		ds = append(ds, and("((_ is VOther) "+v+")", fmt.Sprintf("(implementsI %d (otype %s))", ex.w.ifaceID(iface), v)))
		return or(ds...)
	}
	return "((_ is " + ex.w.ctorFor(t) + ") " + v + ")"
}

var ifaceIDs = map[string]int{}

func (w *World) ifaceID(i *types.Interface) int {
	k := i.String()
	if id, ok := ifaceIDs[k]; ok {
		return id
	}
	id := len(ifaceIDs) + 1
	ifaceIDs[k] = id
	return id
}

func (ex *Exec) doTypeAssert(fr *Frame, st *State, x *ssa.TypeAssert) {
	sv := ex.val(fr, st, x.X)
	test := ex.typeTest(sv.T, x.AssertedType)
	var payload string
	if types.IsInterface(x.AssertedType) {
		payload = sv.T
	} else {
		ctor := ex.w.ctorFor(x.AssertedType)
		if ex.w.ctorType[ctor] == nil {
			payload = "unit"
		} else {
			payload = "(" + ctorSel(ctor) + " " + sv.T + ")"
		}
	}
	if x.CommaOk {
		ok := ex.fresh(fnShort(fr.fn)+"_ok", "Bool")
		st.assume(eq(ok, test))
		zero := ex.w.zeroOf(x.AssertedType)
		// a named constant, so that the value can occur inside quantifier patterns (an ite cannot)
		v := ex.fresh(fnShort(fr.fn)+"_ta", ex.w.sortOf(x.AssertedType))
		st.assume(eq(v, ite(ok, payload, zero)))
		st.vals[x] = SVal{Tup: []SVal{{T: v}, {T: ok}}}
		return
	}
	ex.check(fr, st, "assert-type", "", x.Pos(), test)
	st.vals[x] = SVal{T: payload}
}

func (ex *Exec) mapHeaps(st *State) (val, dom, ln string) {
	v := ex.w.heap("M_val", "(Array Int (Array Str Val))")
	d := ex.w.heap("M_dom", "(Array Int (Array Str Bool))")
	l := ex.w.heap("M_len", "(Array Int Int)")
	return ex.heapTerm(st, v), ex.heapTerm(st, d), ex.heapTerm(st, l)
}

func (ex *Exec) doLookup(fr *Frame, st *State, x *ssa.Lookup) {
	m := ex.val(fr, st, x.X)
	k := ex.val(fr, st, x.Index)
	mt, ok := x.X.Type().Underlying().(*types.Map)
	if !ok {
		// string index
		idx := k.T
		ex.check(fr, st, "bounds", "", x.Pos(), and(le("0", idx), lt(idx, "(strlen "+m.T+")")))
		st.vals[x] = SVal{T: "(byteAt " + m.T + " " + idx + ")"}
		return
	}
	if ex.w.sortOf(mt.Key()) != "Str" {
		ex.errorf("%s: map key type %s unsupported", fnName(fr.fn), mt.Key())
	}
	es := ex.w.sortOf(mt.Elem())
	var valTerm, domTerm string
	if es == "Val" {
		vh, dh, _ := ex.mapHeaps(st)
		domTerm = sel(sel(dh, m.T), k.T)
		valTerm = sel(sel(vh, m.T), k.T)
	} else {
		// maps of other element types (function tables): uninterpreted per element sort
		vh := ex.w.heap("MF_"+es+"_val", "(Array Int (Array Str "+es+"))")
		dh := ex.w.heap("MF_"+es+"_dom", "(Array Int (Array Str Bool))")
		domTerm = sel(sel(ex.heapTerm(st, dh), m.T), k.T)
		valTerm = sel(sel(ex.heapTerm(st, vh), m.T), k.T)
	}
	present := ex.fresh(fnShort(fr.fn)+"_has", "Bool")
	st.assume(eq(present, and(not(eq(m.T, "0")), domTerm)))
	v := ex.fresh(fnShort(fr.fn)+"_"+x.Name(), es)
	st.assume(eq(v, ite(present, valTerm, ex.w.zeroOf(mt.Elem()))))
	ex.assumeWF(st, mt.Elem(), v)
	if x.CommaOk {
		st.vals[x] = SVal{Tup: []SVal{{T: v}, {T: present}}}
	} else {
		st.vals[x] = SVal{T: v}
	}
}

func (ex *Exec) doMapUpdate(fr *Frame, st *State, x *ssa.MapUpdate) {
	m := ex.val(fr, st, x.Map)
	k := ex.val(fr, st, x.Key)
	v := ex.val(fr, st, x.Value)
	mt := x.Map.Type().Underlying().(*types.Map)
	ex.check(fr, st, "nil", "mapwrite", x.Pos(), not(eq(m.T, "0")))
	mine := ex.heapTerm(st, ex.w.ghostHeap("G_mine"))
	ex.check(fr, st, "frame-store", "map", x.Pos(), sel(mine, m.T))
	es := ex.w.sortOf(mt.Elem())
	vhN, dhN, lhN := "M_val", "M_dom", "M_len"
	if es != "Val" {
		vhN, dhN, lhN = "MF_"+es+"_val", "MF_"+es+"_dom", "MF_"+es+"_len"
		ex.w.heap(vhN, "(Array Int (Array Str "+es+"))")
		ex.w.heap(dhN, "(Array Int (Array Str Bool))")
		ex.w.heap(lhN, "(Array Int Int)")
	} else {
		ex.mapHeaps(st)
	}
	vh, dh, lh := ex.heapTerm(st, vhN), ex.heapTerm(st, dhN), ex.heapTerm(st, lhN)
	had := sel(sel(dh, m.T), k.T)
	ex.setHeap(st, lhN, sto(lh, m.T, ite(had, sel(lh, m.T), add(sel(lh, m.T), "1"))))
	ex.setHeap(st, vhN, sto(vh, m.T, sto(sel(vh, m.T), k.T, v.T)))
	ex.setHeap(st, dhN, sto(dh, m.T, sto(sel(dh, m.T), k.T, "true")))
}

// Range over a map: a ghost enumeration rk(iter, j), j in [0,len), injective, onto the domain,
// in an arbitrary order (this is how map-order non-determinism enters).
func (ex *Exec) doRange(fr *Frame, st *State, x *ssa.Range) {
	m := ex.val(fr, st, x.X)
	if _, ok := x.X.Type().Underlying().(*types.Map); !ok {
		ex.errorf("%s: range over %s unsupported", fnName(fr.fn), x.X.Type())
		return
	}
	it := ex.fresh("iter", "Int")
	_, dh, lh := ex.mapHeaps(st)
	n := sel(lh, m.T)
	dom := sel(dh, m.T)
	st.assume(le("0", n))
	st.assume(implies(eq(m.T, "0"), eq(n, "0")))
	// enumeration axioms
	st.assume(fmt.Sprintf("(forall ((j Int)) (! (=> (and (<= 0 j) (< j %s)) (and (select %s (rangeKey %s j)) (= (rangeIdx %s (rangeKey %s j)) j))) :pattern ((rangeKey %s j))))", n, dom, it, it, it, it))
	st.assume(fmt.Sprintf("(forall ((k Str)) (! (=> (select %s k) (and (<= 0 (rangeIdx %s k)) (< (rangeIdx %s k) %s) (= (rangeKey %s (rangeIdx %s k)) k))) :pattern ((rangeIdx %s k)) :pattern ((select %s k))))", dom, it, it, n, it, it, it, dom))
	st.vals[x] = SVal{Tup: []SVal{{T: it}, {T: m.T}, {T: n}}}
	// position counter lives in a per-path ghost cell
	st.vals[rangePos{x}] = SVal{T: "0"}
}

// rangePos is a pseudo value holding the iteration position of a Range.
type rangePos struct{ *ssa.Range }

func (ex *Exec) doNext(fr *Frame, st *State, x *ssa.Next) {
	rng, ok := x.Iter.(*ssa.Range)
	if !ok {
		ex.errorf("%s: next on non-range", fnName(fr.fn))
		return
	}
	it := ex.val(fr, st, rng)
	iter, m, n := it.Tup[0].T, it.Tup[1].T, it.Tup[2].T
	_ = m
	pos := st.vals[rangePos{rng}].T
	okT := ex.fresh("rng_ok", "Bool")
	st.assume(eq(okT, lt(pos, n)))
	key := "(rangeKey " + iter + " " + pos + ")"
	vh, _, _ := ex.mapHeaps(st)
	val := sel(sel(vh, m), key)
	st.vals[x] = SVal{Tup: []SVal{{T: okT}, {T: key}, {T: val}}}
	st.vals[rangePos{rng}] = SVal{T: add(pos, "1")}
}

func (ex *Exec) doMakeClosure(fr *Frame, st *State, x *ssa.MakeClosure) {
	fn := x.Fn.(*ssa.Function)
	id := ex.newRef(st, "clo_"+fnShort(fn))
	st.assume(eq("(rtype "+id+")", fmt.Sprint(ex.w.typeID("func"))))
	st.assume(eq("(cloFn "+id+")", ex.w.funcConst(fn)))
	var binds []SVal
	for i, b := range x.Bindings {
		bv := ex.val(fr, st, b)
		binds = append(binds, bv)
		if bv.Tup == nil {
			st.assume(eq(fmt.Sprintf("(cloBind %s %d)", id, i), bv.T))
		}
	}
	st.vals[x] = SVal{T: id}
	st.vals[closureBinds{x}] = SVal{Tup: binds}
}

type closureBinds struct{ *ssa.MakeClosure }

func (closureBinds) String() string { return "closure-binds" }

// callSiteName: "<callee short name>#<k>", k counting the call sites of that callee in source order.
func (fr *Frame) callSiteName(call *ssa.Call) string {
	short := func(c *ssa.CallCommon) string {
		if c.IsInvoke() {
			return c.Method.Name()
		}
		switch v := c.Value.(type) {
		case *ssa.Function:
			return v.Name()
		case *ssa.Builtin:
			return v.Name()
		}
		return "func"
	}
	want := short(call.Common())
	k := 0
	for _, b := range fr.fn.Blocks {
		for _, in := range b.Instrs {
			if c, ok := in.(*ssa.Call); ok && short(c.Common()) == want {
				k++
				if c == call {
					return fmt.Sprintf("%s#%d", want, k)
				}
			}
		}
	}
	return want + "#?"
}

// ghostBefore: `before <site> assert e` clauses, evaluated just before the call with arg0..argN bound
// to the actual arguments.
func (ex *Exec) ghostBefore(fr *Frame, st *State, call *ssa.Call) {
	if fr.block == nil {
		return
	}
	var site string
	for _, c := range fr.block.Clauses {
		if c.Kind != "before" {
			continue
		}
		if site == "" {
			site = fr.callSiteName(call)
		}
		if c.Names[0] != site && !(strings.HasSuffix(c.Names[0], "#*") && strings.HasPrefix(site, strings.TrimSuffix(c.Names[0], "*"))) {
			continue
		}
		c.hit = true
		env := ex.loopEnv(fr, nil, st)
		for i, a := range call.Call.Args {
			sv := ex.val(fr, st, a)
			if sv.Loc == nil && sv.Tup == nil {
				env[fmt.Sprintf("arg%d", i)] = CV{T: sv.T, Sort: ex.w.sortOf(a.Type()), Type: a.Type()}
			}
		}
		if call.Call.IsInvoke() {
			// the receiver of an interface call
			if sv := ex.val(fr, st, call.Call.Value); sv.Loc == nil && sv.Tup == nil {
				env["recv"] = CV{T: sv.T, Sort: ex.w.sortOf(call.Call.Value.Type()), Type: call.Call.Value.Type()}
			}
		}
		ctx := &EvalCtx{ex: ex, st: st, old: fr.pre, env: env}
		t, err := ctx.evalBool(c.E)
		if err != nil {
			ex.errorf("%s: before %s assert: %v", fnName(fr.fn), site, err)
			continue
		}
		label := c.Label
		if label == "" {
			label = site
		}
		ex.check(fr, st, "assert", label, call.Pos(), t)
	}
}

// ghostAsserts: `after <site> assert e` clauses: proved at that point, then assumed (proof stepping stones).
func (ex *Exec) ghostAsserts(fr *Frame, st *State, call *ssa.Call, preCall *State) {
	if fr.block == nil {
		return
	}
	var site string
	for _, c := range fr.block.Clauses {
		if c.Kind != "after" {
			continue
		}
		if site == "" {
			site = fr.callSiteName(call)
		}
		if c.Names[0] != site && !(strings.HasSuffix(c.Names[0], "#*") && strings.HasPrefix(site, strings.TrimSuffix(c.Names[0], "*"))) {
			continue
		}
		c.hit = true
		env := ex.loopEnv(fr, nil, st)
		if preCall != nil {
			for i, a := range call.Call.Args {
				if sv, ok := preCall.vals[a]; ok && sv.Loc == nil && sv.Tup == nil {
					env[fmt.Sprintf("arg%d", i)] = CV{T: sv.T, Sort: ex.w.sortOf(a.Type()), Type: a.Type()}
				}
			}
		}
		if sv, ok := st.vals[call]; ok && sv.Loc == nil && sv.Tup == nil && sv.T != "" {
			env["result"] = CV{T: sv.T, Sort: ex.w.sortOf(call.Type()), Type: call.Type()}
		}
		ctx := &EvalCtx{ex: ex, st: st, old: fr.pre, atCall: preCall, env: env}
		t, err := ctx.evalBool(c.E)
		if err != nil {
			ex.errorf("%s: after %s assert: %v", fnName(fr.fn), site, err)
			continue
		}
		label := c.Label
		if label == "" {
			label = site
		}
		ex.check(fr, st, "assert", label, call.Pos(), t)
	}
}

// enterCase: on the true branch of `tag == <constant>` (a switch case), the `case <constant> assume e` clauses of a
// `cases` block are assumed and the state is remembered for the `case <constant> ensures` clauses.
func (ex *Exec) enterCase(fr *Frame, st *State, x *ssa.If) {
	if fr.block == nil || fr.block.Kind != "cases" || fr.parent != nil {
		return
	}
	cmp, ok := x.Cond.(*ssa.BinOp)
	if !ok || cmp.Op != token.EQL {
		return
	}
	k, ok := cmp.Y.(*ssa.Const)
	if !ok || k.Value == nil {
		return
	}
	name := ex.constName(k)
	if name == "" {
		return
	}
	st.caseName = name
	st.caseEntry = st.clone()
	ctx := &EvalCtx{ex: ex, st: st, old: fr.pre, env: ex.loopEnv(fr, nil, st)}
	for _, c := range fr.block.Clauses {
		if c.Kind != "case-assume" || c.Names[0] != name {
			continue
		}
		c.hit = true
		t, err := ctx.evalBool(c.E)
		if err != nil {
			ex.errorf("%s: case %s assume: %v", fnName(fr.fn), name, err)
			continue
		}
		st.assume(t)
	}
}

// leaveCase: at the back edge of the enclosing loop, the `case <constant> ensures` clauses of the case the path went
// through are obligations; old() refers to the state at the entry of the case.
func (ex *Exec) leaveCase(fr *Frame, st *State) {
	if fr.block == nil || fr.block.Kind != "cases" {
		return
	}
	name := st.caseName
	ctx := &EvalCtx{ex: ex, st: st, old: st.caseEntry, env: ex.loopEnv(fr, nil, st)}
	for _, c := range fr.block.Clauses {
		if c.Kind != "case-ensures" || c.Names[0] != name {
			continue
		}
		c.hit = true
		t, err := ctx.evalBool(c.E)
		if err != nil {
			ex.errorf("%s: case %s ensures %s: %v", fnName(fr.fn), name, c.Label, err)
			continue
		}
		label := name
		if c.Label != "" {
			label = name + "." + c.Label
		}
		ex.oblige(fr, st, "case-post", label, token.NoPos, t)
	}
	st.caseName = ""
}

// constName: the name of the package-level constant of this type with this value (e.g. ruleAction7).
func (ex *Exec) constName(k *ssa.Const) string {
	named, ok := k.Type().(*types.Named)
	if !ok {
		return ""
	}
	scope := ex.w.pkg.Pkg.Scope()
	for _, n := range scope.Names() {
		if c, ok := scope.Lookup(n).(*types.Const); ok && types.Identical(c.Type(), named) {
			if c.Val().ExactString() == k.Value.ExactString() {
				return n
			}
		}
	}
	return ""
}
