package main

import (
	"encoding/json"
	"flag"
	"fmt"
	"go/types"
	"os"
	"path/filepath"
	"regexp"
	"sort"
	"strings"
	"time"

	"golang.org/x/tools/go/packages"
	"golang.org/x/tools/go/ssa"
	"golang.org/x/tools/go/ssa/ssautil"
)

func loadWorld(repo string) (*World, error) {
	cfg := &packages.Config{Mode: packages.LoadAllSyntax, Dir: repo, BuildFlags: []string{"-tags=verif"},
		Env: append(os.Environ(), "GOFLAGS=-mod=mod", "GOPROXY=off", "GOSUMDB=off", "GOTOOLCHAIN=local")}
	pkgs, err := packages.Load(cfg, ".")
	if err != nil {
		return nil, err
	}
	if len(pkgs) != 1 {
		return nil, fmt.Errorf("expected one package, got %d", len(pkgs))
	}
	if len(pkgs[0].Errors) > 0 {
		return nil, fmt.Errorf("package errors: %v", pkgs[0].Errors)
	}
	prog, spkgs := ssautil.AllPackages(pkgs, ssa.GlobalDebug)
	prog.Build()
	thePkgPath = spkgs[0].Pkg.Path()
	w := &World{
		prog: prog, pkg: spkgs[0],
		structSorts: map[string]*types.Struct{}, structNamed: map[string]types.Type{},
		ctorType: map[string]types.Type{}, typeCtor: map[string]string{},
		strConsts: map[string]string{}, heapSorts: map[string]string{},
		globals: map[*ssa.Global]string{}, funcByName: map[string]*ssa.Function{},
	}
	w.strConst("")
	w.heap("M_val", "(Array Int (Array Str Val))")
	w.heap("M_dom", "(Array Int (Array Str Bool))")
	w.heap("M_len", "(Array Int Int)")
	w.heap("A_Val", "(Array Int (Array Int Val))")
	w.heap("A_Str", "(Array Int (Array Int Str))")
	w.heap("A_Int", "(Array Int (Array Int Int))")
	w.heap("C_Val", "(Array Int Val)")
	w.heap("C_Int", "(Array Int Int)")
	w.heap("C_Str", "(Array Int Str)")
	w.heap("C_Slice", "(Array Int Slice)")
	w.heap("C_Bool", "(Array Int Bool)")
	for _, g := range []string{"G_mine", "G_held", "G_esc"} {
		w.ghostHeap(g)
	}
	cs, err := loadContracts(filepath.Join(repo, "zz_verif_contracts.go"))
	if err != nil {
		return nil, err
	}
	w.specs = cs
	w.scanTypes()
	var fns []*ssa.Function
	for fn := range ssaAllFunctions(w.pkg) {
		fns = append(fns, fn)
	}
	sort.Slice(fns, func(i, j int) bool { return fnName(fns[i]) < fnName(fns[j]) })
	for _, fn := range fns {
		w.funcByName[fnName(fn)] = fn
		w.funcConstOrder = append(w.funcConstOrder, w.funcConst(fn))
	}
	for _, g := range w.globalOrder() {
		w.globalRef(g)
	}
	// register the field heaps of every struct type declared in the package (wildcards in extern contracts)
	scope := w.pkg.Pkg.Scope()
	for _, n := range scope.Names() {
		if tn, ok := scope.Lookup(n).(*types.TypeName); ok {
			if _, ok := tn.Type().Underlying().(*types.Struct); ok {
				func() {
					defer func() { recover() }()
					w.structHeaps(tn.Type(), map[string]bool{})
				}()
			}
		}
	}
	return w, nil
}

// statePrelude: declarations that depend on the world (globals, function constants, UFs).
func (w *World) fullPrelude() string {
	var b strings.Builder
	b.WriteString(w.prelude())
	b.WriteString("(declare-fun rangeKey (Int Int) Str)\n(declare-fun rangeIdx (Int Str) Int)\n")
	b.WriteString("(declare-fun byteAt (Str Int) Int)\n(assert (forall ((s Str) (i Int)) (! (and (<= 0 (byteAt s i)) (<= (byteAt s i) 255)) :pattern ((byteAt s i)))))\n")
	b.WriteString("(declare-fun elemref (Int Int) Int)\n(assert (forall ((a Int) (i Int)) (! (not (= (elemref a i) 0)) :pattern ((elemref a i)))))\n")
	b.WriteString("(declare-fun idx (Int Int) Int)\n(assert (forall ((o Int) (i Int)) (! (= (idx o i) (+ o i)) :pattern ((idx o i)))))\n")
	b.WriteString("(declare-fun runeCount (Str) Int)\n(assert (forall ((s Str)) (! (and (<= 0 (runeCount s)) (<= (runeCount s) (strlen s))) :pattern ((runeCount s)))))\n")
	// []rune(s) and string(runes): runesOf(s) is the array of code points of s (length runeCount s); strOfRunes decodes a
	// window of such an array; the suffix of s from character p on is what the window [p, runeCount s) of runesOf(s) encodes
	b.WriteString("(declare-fun runesOf (Str) (Array Int Int))\n(declare-fun strOfRunes ((Array Int Int) Int Int) Str)\n(declare-fun runeSuffix (Str Int) Str)\n")
	b.WriteString("(assert (forall ((s Str) (p Int)) (! (= (strOfRunes (runesOf s) p (- (runeCount s) p)) (runeSuffix s p)) :pattern ((strOfRunes (runesOf s) p (- (runeCount s) p))))))\n")
	b.WriteString("(declare-fun implementsI (Int Int) Bool)\n(declare-fun cloFn (Int) Int)\n(declare-fun cloBind (Int Int) Int)\n")
	var names []string
	for _, g := range w.globalOrder() {
		names = append(names, w.globalRef(g))
	}
	names = append(names, w.funcConstOrder...)
	for _, n := range names {
		b.WriteString("(declare-const " + n + " Int)\n(assert (< 0 " + n + "))\n")
	}
	if len(names) > 1 {
		b.WriteString("(assert (distinct " + strings.Join(names, " ") + "))\n")
	}
	for _, l := range w.specs.RawSMT {
		b.WriteString(l + "\n")
	}
	return b.String()
}

type Report struct {
	Repo        string      `json:"repo"`
	Functions   []FnReport  `json:"functions"`
	Obligations []OblReport `json:"obligations"`
	Errors      []string    `json:"errors"`
	Notes       []string    `json:"notes"`
	Unused      []string    `json:"unused_blocks"`
	WallS       float64     `json:"wall_s"`
	SolverS     float64     `json:"solver_s"`
	Assumed     []string    `json:"assumed"`
}

type FnReport struct {
	Name   string   `json:"name"`
	Props  []string `json:"props"`
	Paths  int      `json:"paths"`
	Exits  int      `json:"exits"`
	NObl   int      `json:"obligations"`
	Hash   string   `json:"source_pos"`
	Errors []string `json:"errors,omitempty"`
}

type OblReport struct {
	Name     string            `json:"name"`
	Kind     string            `json:"kind"`
	Fn       string            `json:"fn"`
	Label    string            `json:"label,omitempty"`
	Pos      string            `json:"pos,omitempty"`
	Props    []string          `json:"props,omitempty"`
	Status   string            `json:"status"`
	Solver   string            `json:"solver,omitempty"`
	Time     float64           `json:"time_s"`
	MustFail bool              `json:"must_fail,omitempty"`
	Values   map[string]string `json:"values,omitempty"`
	Output   string            `json:"output,omitempty"`
	Trail    string            `json:"trail,omitempty"`
}

func main() {
	repo := flag.String("repo", "/repo", "repository to verify")
	fnRe := flag.String("fn", "", "regexp selecting functions under contract (default all)")
	props := flag.String("props", "", "comma separated property ids: only functions serving them")
	timeout := flag.Int("timeout", 10, "seconds per query")
	jobs := flag.Int("jobs", 6, "parallel queries")
	keep := flag.String("keep-smt", "", "directory to keep SMT files in")
	out := flag.String("json", "", "write the report to this file")
	verbose := flag.Bool("v", false, "verbose")
	vac := flag.Bool("vacuity", true, "add must-fail probes at every exit")
	seed := flag.Int("seed", 0, "solver seed")
	dump := flag.String("dump", "", "dump the query of the obligation with this name")
	listFns := flag.Bool("list-functions", false, "list the SSA function names contracts can bind to")
	only := flag.String("only", "", "file with obligation names, one per line: discharge only these (retry pass)")
	flag.Parse()

	t0 := time.Now()
	w, err := loadWorld(*repo)
	if err != nil {
		fmt.Fprintln(os.Stderr, "govc: load:", err)
		os.Exit(2)
	}
	if *listFns {
		var ns []string
		for n, f := range w.funcByName {
			syn := ""
			if f.Synthetic != "" {
				syn = "  [" + f.Synthetic + "]"
			}
			ns = append(ns, n+syn)
		}
		sort.Strings(ns)
		for _, n := range ns {
			fmt.Println(n)
		}
		return
	}
	opts := &Options{Timeout: *timeout, Jobs: *jobs, KeepSMT: *keep, Verbose: *verbose, Vacuity: *vac, Seed: *seed}
	var re *regexp.Regexp
	if *fnRe != "" {
		re = regexp.MustCompile(*fnRe)
	}
	wantProps := map[string]bool{}
	for _, p := range strings.Split(*props, ",") {
		if p = strings.TrimSpace(p); p != "" {
			wantProps[p] = true
		}
	}
	rep := &Report{Repo: *repo}
	var all []*Obligation
	for _, blk := range w.specs.Order {
		if (blk.Kind != "func" && blk.Kind != "cases") || blk.Inline {
			continue
		}
		ghostOnly := false
		if blk.Trusted {
			rep.Assumed = append(rep.Assumed, "trusted (body not verified) "+blk.Name)
			// a trusted function may still carry ghost assertions (before/after a call, loop exit): its body is then
			// executed for those alone, every other obligation being assumed
			for _, c := range blk.Clauses {
				if c.Kind == "before" || c.Kind == "after" || c.Kind == "loop-exit" || c.Kind == "loop-step" || (c.Kind == "ensures" && c.Checked) {
					ghostOnly = true
				}
			}
			if !ghostOnly {
				continue
			}
		}
		if re != nil && !re.MatchString(blk.Name) {
			continue
		}
		if len(wantProps) > 0 {
			hit := false
			for _, p := range blk.Props {
				if wantProps[p] {
					hit = true
				}
			}
			if !hit {
				continue
			}
		}
		fn := w.funcByName[blk.Name]
		if fn == nil {
			rep.Errors = append(rep.Errors, fmt.Sprintf("contract for unknown function %q (line %d): the obligations it carried can no longer be generated", blk.Name, blk.Line))
			rep.Functions = append(rep.Functions, FnReport{Name: blk.Name, Props: blk.Props, Errors: []string{"unbound contract"}})
			continue
		}
		o2 := *opts
		o2.GhostOnly = ghostOnly
		if ghostOnly {
			o2.Vacuity = false
		}
		ex := w.verifyFunction(fn, blk, &o2)
		fr := FnReport{Name: blk.Name, Props: blk.Props, Paths: ex.paths, Exits: ex.exits, NObl: len(ex.obls), Errors: ex.errs}
		if fn.Pos().IsValid() {
			p := w.prog.Fset.Position(fn.Pos())
			fr.Hash = fmt.Sprintf("%s:%d", shortFile(p.Filename), p.Line)
		}
		rep.Functions = append(rep.Functions, fr)
		for _, e := range ex.errs {
			rep.Errors = append(rep.Errors, blk.Name+": "+e)
		}
		rep.Notes = append(rep.Notes, ex.notes...)
		all = append(all, ex.obls...)
	}
	// code-free lemmas
	lemmaObls := w.lemmaObligations(opts, wantProps, re)
	all = append(all, lemmaObls...)

	all = append(all, w.readSetObligations(wantProps, re)...)
	prelude := w.fullPrelude()
	if *dump != "" {
		for _, o := range all {
			if o.Name == *dump {
				fmt.Print(o.query(prelude, true))
				return
			}
		}
		fmt.Fprintln(os.Stderr, "no such obligation")
		os.Exit(2)
	}
	if *only != "" {
		data, err := os.ReadFile(*only)
		if err != nil {
			fmt.Fprintln(os.Stderr, err)
			os.Exit(2)
		}
		want := map[string]bool{}
		for _, l := range strings.Split(string(data), "\n") {
			if l = strings.TrimSpace(l); l != "" {
				want[l] = true
			}
		}
		var sel []*Obligation
		for _, o := range all {
			if want[o.Name] {
				sel = append(sel, o)
			}
		}
		all = sel
	}
	ts := time.Now()
	dischargeAll(all, prelude, opts)
	rep.SolverS = time.Since(ts).Seconds()
	for _, o := range all {
		or := OblReport{Name: o.Name, Kind: o.Kind, Fn: o.Fn, Label: o.Label, Pos: o.Pos, Props: o.Props,
			Status: o.Status, Solver: o.Solver, Time: o.Time, MustFail: o.MustFail, Trail: o.Trail, Values: o.Values}
		if o.Status != "proved" {
			or.Output = o.Output
			if len(or.Output) > 20000 {
				or.Output = or.Output[:20000]
			}
		}
		rep.Obligations = append(rep.Obligations, or)
	}
	for _, blk := range w.specs.Order {
		if blk.Kind == "extern" && blk.used {
			rep.Assumed = append(rep.Assumed, "extern "+blk.Name)
		}
		if blk.Kind == "functype" && blk.used {
			rep.Assumed = append(rep.Assumed, "functype "+blk.Name)
		}
	}
	for _, lm := range w.specs.Lemmas {
		if lm.Axiom {
			rep.Assumed = append(rep.Assumed, "axiom "+lm.Name)
		}
	}
	{
		var names []string
		for n := range w.pureUsed {
			names = append(names, n)
		}
		sort.Strings(names)
		for _, n := range names {
			rep.Assumed = append(rep.Assumed, "library function treated as pure and total, result unknown: "+n)
		}
	}
	rep.WallS = time.Since(t0).Seconds()
	if *out != "" {
		data, _ := json.MarshalIndent(rep, "", " ")
		os.WriteFile(*out, data, 0o644)
	}
	// console summary
	proved, failed, unknown, vacOK, vacBad := 0, 0, 0, 0, 0
	// vacuity: the entry probe of a function must not be provable, and at least one exit must be reachable
	exitSeen, exitLive := map[string]bool{}, map[string]bool{}
	for _, o := range all {
		if !o.MustFail {
			continue
		}
		if o.Label == "entry" || strings.HasPrefix(o.Label, "loop") {
			if o.Status == "proved" {
				vacBad++
				fmt.Printf("VACUOUS  %s: the assumptions of %s are contradictory at %s\n", o.Name, o.Fn, o.Label)
			} else {
				vacOK++
			}
			continue
		}
		exitSeen[o.Fn] = true
		if o.Status != "proved" {
			exitLive[o.Fn] = true
		}
	}
	for fn := range exitSeen {
		if exitLive[fn] {
			vacOK++
		} else {
			vacBad++
			fmt.Printf("VACUOUS  %s: no exit is reachable under the assumptions\n", fn)
		}
	}
	for _, o := range all {
		if o.MustFail {
			continue
		}
		switch o.Status {
		case "proved":
			proved++
			if *verbose {
				fmt.Printf("proved   %-70s %s %.2fs\n", o.Name, o.Solver, o.Time)
			}
		case "failed":
			failed++
			fmt.Printf("FAILED   %s  [%s] at %s (sat by %s, %.2fs) path %s\n", o.Name, o.Kind, o.Pos, o.Solver, o.Time, o.Trail)
		case "skipped":
			unknown++
		default:
			unknown++
			fmt.Printf("UNKNOWN  %s  [%s] at %s (%s) path %s\n", o.Name, o.Kind, o.Pos, firstLines(o.Output, 2), o.Trail)
		}
	}
	for _, e := range rep.Errors {
		fmt.Println("ERROR   ", e)
	}
	fmt.Printf("govc: %d functions, %d obligations: %d proved, %d failed, %d unknown; vacuity probes ok=%d bad=%d; %.1fs (solver %.1fs)\n",
		len(rep.Functions), proved+failed+unknown, proved, failed, unknown, vacOK, vacBad, rep.WallS, rep.SolverS)
	if len(rep.Errors) > 0 || vacBad > 0 {
		os.Exit(2)
	}
	if failed+unknown > 0 {
		os.Exit(1)
	}
}

func (w *World) lemmaObligations(opts *Options, wantProps map[string]bool, re *regexp.Regexp) []*Obligation {
	var out []*Obligation
	for _, lm := range w.specs.Lemmas {
		if lm.Axiom {
			continue
		}
		if re != nil && !re.MatchString("lemma:"+lm.Name) {
			continue
		}
		if len(wantProps) > 0 {
			hit := false
			for _, p := range lm.Props {
				if wantProps[p] {
					hit = true
				}
			}
			if !hit {
				continue
			}
		}
		ex := &Exec{w: w, kindN: map[string]int{}, opts: opts}
		ex.entry = &State{vals: map[ssa.Value]SVal{}, heaps: map[string]string{}, heapAlloc: map[string]string{}, inLoop: map[*ssa.BasicBlock]bool{}}
		ex.entry.alloc = ex.fresh("alloc0", "Int")
		ctx := &EvalCtx{ex: ex, st: ex.entry, old: ex.entry, env: map[string]CV{}}
		t, err := ctx.evalBool(lm.E)
		if err != nil {
			fmt.Fprintf(os.Stderr, "lemma %s: %v\n", lm.Name, err)
			os.Exit(2)
		}
		o := &Obligation{Name: "lemma:" + lm.Name, Kind: "lemma", Fn: "lemma:" + lm.Name, Goal: t, NDecl: len(ex.decls), ex: ex, Props: lm.Props}
		out = append(out, o)
	}
	return out
}

// readSetObligations: structural checks "field T.f is loaded/stored only in the listed functions"
// (decided on the SSA, no solver).  Allowed entries ending in '*' are prefixes.
func (w *World) readSetObligations(wantProps map[string]bool, re *regexp.Regexp) []*Obligation {
	var out []*Obligation
	for _, rs := range w.specs.ReadSets {
		if re != nil && !re.MatchString("readset:"+rs.Name) {
			continue
		}
		if len(wantProps) > 0 {
			hit := false
			for _, p := range rs.Props {
				if wantProps[p] {
					hit = true
				}
			}
			if !hit {
				continue
			}
		}
		if rs.Field == "#callsonce" {
			o := &Obligation{Name: "callsonce:" + rs.Name, Kind: "callsonce", Fn: "callsonce:" + rs.Name, Props: rs.Props, ex: &Exec{w: w}, Structural: true}
			var bad []string
			for _, n := range rs.Allowed {
				fn := w.funcByName[n]
				if fn == nil {
					bad = append(bad, n+": no such function")
					continue
				}
				loops := findLoops(w, fn)
				cnt := 0
				for _, b := range fn.Blocks {
					for _, in := range b.Instrs {
						c, ok := in.(*ssa.Call)
						if !ok || c.Call.IsInvoke() {
							continue
						}
						switch c.Call.Value.(type) {
						case *ssa.Function, *ssa.Builtin, *ssa.MakeClosure:
							continue
						}
						cnt++
						for _, li := range loops {
							if li.body[b] {
								bad = append(bad, n+": the user-function call is inside a loop")
							}
						}
					}
				}
				if cnt != 1 {
					bad = append(bad, fmt.Sprintf("%s: %d calls through a function value (expected exactly 1)", n, cnt))
				}
			}
			if len(bad) == 0 {
				o.Status, o.Solver, o.Goal = "proved", "ssa-scan", "true"
			} else {
				o.Status, o.Solver, o.Goal, o.Output = "failed", "ssa-scan", "false", strings.Join(bad, "; ")
			}
			out = append(out, o)
			continue
		}
		k := strings.LastIndex(rs.Field, ".")
		tn, fld := rs.Field[:k], rs.Field[k+1:]
		allowed := func(name string) bool {
			for _, a := range rs.Allowed {
				if a == name || (strings.HasSuffix(a, "*") && strings.HasPrefix(name, strings.TrimSuffix(a, "*"))) {
					return true
				}
			}
			return false
		}
		var bad []string
		var names []string
		for n := range w.funcByName {
			names = append(names, n)
		}
		sort.Strings(names)
		for _, n := range names {
			fn := w.funcByName[n]
			if allowed(n) || fn.Synthetic != "" {
				continue
			}
			for _, b := range fn.Blocks {
				for _, in := range b.Instrs {
					fa, ok := in.(*ssa.FieldAddr)
					if !ok {
						continue
					}
					st := derefType(fa.X.Type())
					if typeKey(st) != tn {
						continue
					}
					if st.Underlying().(*types.Struct).Field(fa.Field).Name() != fld {
						continue
					}
					if rs.WritesOnly {
						// writeset: only stores through this field address count (and addresses that escape)
						stored := false
						for _, ref := range *fa.Referrers() {
							switch r := ref.(type) {
							case *ssa.Store:
								if r.Addr == fa {
									stored = true
								}
							case *ssa.UnOp, *ssa.DebugRef:
							default:
								stored = true // address passed on: may be written elsewhere
							}
						}
						if !stored {
							continue
						}
					}
					bad = append(bad, n)
				}
			}
		}
		o := &Obligation{Name: "readset:" + rs.Name, Kind: "readset", Fn: "readset:" + rs.Name, Props: rs.Props, ex: &Exec{w: w}}
		if len(bad) == 0 {
			o.Status, o.Solver, o.Goal = "proved", "ssa-scan", "true"
		} else {
			o.Status, o.Solver, o.Goal = "failed", "ssa-scan", "false"
			o.Output = "field " + rs.Field + " is also accessed in: " + strings.Join(bad, ", ")
		}
		o.Structural = true
		out = append(out, o)
	}
	return out
}
