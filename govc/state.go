package main

import (
	"fmt"
	"go/types"
	"strconv"
	"strings"

	"golang.org/x/tools/go/ssa"
)

// SVal is a symbolic value: an SMT term, a tuple of values, or an address.
type SVal struct {
	T   string
	Tup []SVal
	Loc *Loc
}

// Loc is the address of a scalar location: heap[ref] or heap[ref][idx].
type Loc struct {
	Heap string
	Ref  string
	Idx  string // "" unless an array element
	Elem types.Type
}

type deferred struct {
	call  *ssa.Defer
	frame *Frame
}

// State is one symbolic path state.
type State struct {
	caseName  string // the switch case (constant name) this path is in (`cases` blocks)
	caseEntry *State

	vals      map[ssa.Value]SVal
	heaps     map[string]string // heap name -> current SMT term
	heapAlloc map[string]string // heap name -> allocation counter when the current version was created
	alloc     string
	pc        []string
	defers    []deferred
	inLoop    map[*ssa.BasicBlock]bool // loop headers already cut on this path
	trail     []string                 // human-readable path trace (block comments)
	dead      bool
	panicV    *SVal // non-nil while a panic propagates
	lastPhi   *ssa.BasicBlock
	// arrays given back to a pool on this path (with the condition under which they were): their elements must not be
	// read any more - the next holder of the pool object writes them (C05 / C06)
	gone []goneRef
}

type goneRef struct{ ref, cond string }

func (s *State) clone() *State {
	n := &State{
		vals:      make(map[ssa.Value]SVal, len(s.vals)+8),
		heaps:     make(map[string]string, len(s.heaps)+4),
		heapAlloc: make(map[string]string, len(s.heapAlloc)+4),
		alloc:     s.alloc,
		pc:        append([]string(nil), s.pc...),
		defers:    append([]deferred(nil), s.defers...),
		inLoop:    make(map[*ssa.BasicBlock]bool, len(s.inLoop)),
		trail:     append([]string(nil), s.trail...),
		panicV:    s.panicV,
		caseName:  s.caseName, caseEntry: s.caseEntry,
		gone:      append([]goneRef(nil), s.gone...),
	}
	for k, v := range s.vals {
		n.vals[k] = v
	}
	for k, v := range s.heaps {
		n.heaps[k] = v
	}
	for k, v := range s.heapAlloc {
		n.heapAlloc[k] = v
	}
	for k, v := range s.inLoop {
		n.inLoop[k] = v
	}
	return n
}

func (s *State) assume(f string) {
	if f == "true" {
		return
	}
	s.pc = append(s.pc, f)
}

// Obligation is one verification condition.
type Obligation struct {
	Name       string
	Kind       string
	Fn         string
	Label      string
	Pos        string
	Goal       string
	PC         []string
	Decls      []string // snapshot length marker: uses ex.decls[:NDecl]
	NDecl      int
	ex         *Exec
	Trail      string
	Props      []string
	MustFail   bool // vacuity probe: expected NOT to be provable
	Structural bool // decided on the SSA without a solver
	// results
	Status  string // proved, failed, unknown
	Solver  string
	Time    float64
	Model   string
	Output  string
	Values  map[string]string
	witness []witnessTerm
}

// Exec generates the obligations of one function under contract.
type Exec struct {
	w          *World
	fn         *ssa.Function
	block      *Block
	decls      []string
	obls       []*Obligation
	n          int
	kindN      map[string]int
	errs       []string
	entry      *State
	params     map[string]CV
	paths      int
	mineListed []listedLoc
	short      string
	opts       *Options
	notes      []string
	pins       []listedLoc // read-only locations (package-level cells and their arrays): pinned to the entry heap at every havoc
	witness    []witnessTerm
	measure0   string
	exits      int
}

type witnessTerm struct {
	Name string
	Term string
	Sort string
}

type listedLoc struct {
	heap string
	ref  string
}

func (ex *Exec) fresh(hint, sort string) string {
	ex.n++
	name := fmt.Sprintf("%s!%d", sanitize(hint), ex.n)
	ex.decls = append(ex.decls, fmt.Sprintf("(declare-const |%s| %s)", name, sort))
	return "|" + name + "|"
}

func (ex *Exec) errorf(format string, a ...interface{}) {
	msg := fmt.Sprintf(format, a...)
	for _, e := range ex.errs {
		if e == msg {
			return
		}
	}
	ex.errs = append(ex.errs, msg)
}

// heapTerm returns the current term of a heap, creating its entry constant on first use.
func (ex *Exec) heapTerm(st *State, name string) string {
	if t, ok := st.heaps[name]; ok {
		return t
	}
	// first use on this path: the entry version (shared by all paths)
	if t, ok := ex.entry.heaps[name]; ok {
		st.heaps[name] = t
		return t
	}
	sortName, ok := ex.w.heapSorts[name]
	if !ok {
		panic("unknown heap " + name)
	}
	ex.n++
	cname := fmt.Sprintf("%s!0", name)
	ex.decls = append(ex.decls, fmt.Sprintf("(declare-const |%s| %s)", cname, sortName))
	t := "|" + cname + "|"
	ex.entry.heaps[name] = t
	st.heaps[name] = t
	return t
}

func (ex *Exec) setHeap(st *State, name, term string) {
	// bind to a fresh constant to keep terms small
	sortName := ex.w.heapSorts[name]
	c := ex.fresh(name, sortName)
	st.assume("(= " + c + " " + term + ")")
	st.heaps[name] = c
	st.heapAlloc[name] = st.alloc
}

// heapBound: every reference stored in the current version of the heap is below this counter.
func (ex *Exec) heapBound(st *State, name string) string {
	if a, ok := st.heapAlloc[name]; ok {
		return a
	}
	return ex.entry.alloc
}

func (ex *Exec) havocHeap(st *State, name string) string {
	ex.heapTerm(st, name) // make sure the entry version exists
	c := ex.fresh(name, ex.w.heapSorts[name])
	st.heaps[name] = c
	st.heapAlloc[name] = st.alloc
	return c
}

func sel(a, i string) string    { return "(select " + a + " " + i + ")" }
func sto(a, i, v string) string { return "(store " + a + " " + i + " " + v + ")" }
func and(xs ...string) string {
	var ys []string
	for _, x := range xs {
		if x == "true" || x == "" {
			continue
		}
		ys = append(ys, x)
	}
	switch len(ys) {
	case 0:
		return "true"
	case 1:
		return ys[0]
	}
	return "(and " + strings.Join(ys, " ") + ")"
}
func or(xs ...string) string {
	switch len(xs) {
	case 0:
		return "false"
	case 1:
		return xs[0]
	}
	return "(or " + strings.Join(xs, " ") + ")"
}
func not(x string) string        { return "(not " + x + ")" }
func implies(a, b string) string { return "(=> " + a + " " + b + ")" }
func eq(a, b string) string      { return "(= " + a + " " + b + ")" }
func ite(c, a, b string) string  { return "(ite " + c + " " + a + " " + b + ")" }
func isLit(a string) bool {
	if a == "" {
		return false
	}
	for _, r := range a {
		if r < '0' || r > '9' {
			return false
		}
	}
	return len(a) < 18
}
func add(a, b string) string {
	if a == "0" {
		return b
	}
	if b == "0" {
		return a
	}
	if isLit(a) && isLit(b) {
		x, _ := strconv.ParseInt(a, 10, 64)
		y, _ := strconv.ParseInt(b, 10, 64)
		return strconv.FormatInt(x+y, 10)
	}
	return "(+ " + a + " " + b + ")"
}

// idxT: position off+i of a slice element inside its backing array, written with the uninterpreted
// wrapper idx (axiom: idx(o,i) = o+i) so that quantifier triggers contain no arithmetic.
func idxT(off, i string) string {
	if off == "0" {
		return i
	}
	return "(idx " + off + " " + i + ")"
}

func sub(a, b string) string {
	if b == "0" {
		return a
	}
	if isLit(a) && isLit(b) {
		x, _ := strconv.ParseInt(a, 10, 64)
		y, _ := strconv.ParseInt(b, 10, 64)
		if x >= y {
			return strconv.FormatInt(x-y, 10)
		}
	}
	return "(- " + a + " " + b + ")"
}
func le(a, b string) string { return "(<= " + a + " " + b + ")" }
func lt(a, b string) string { return "(< " + a + " " + b + ")" }

// slice selectors, simplified on literal (mkslice a o l c) terms
func mkParts(s string) []string {
	if !strings.HasPrefix(s, "(mkslice ") {
		return nil
	}
	body := s[len("(mkslice ") : len(s)-1]
	var parts []string
	depth, start := 0, 0
	for i := 0; i < len(body); i++ {
		switch body[i] {
		case '(':
			depth++
		case ')':
			depth--
		case ' ':
			if depth == 0 {
				parts = append(parts, body[start:i])
				start = i + 1
			}
		}
	}
	parts = append(parts, body[start:])
	if len(parts) != 4 {
		return nil
	}
	return parts
}
func sArr(s string) string {
	if p := mkParts(s); p != nil {
		return p[0]
	}
	return "(s_arr " + s + ")"
}
func sOff(s string) string {
	if p := mkParts(s); p != nil {
		return p[1]
	}
	return "(s_off " + s + ")"
}
func sLen(s string) string {
	if p := mkParts(s); p != nil {
		return p[2]
	}
	return "(s_len " + s + ")"
}
func sCap(s string) string {
	if p := mkParts(s); p != nil {
		return p[3]
	}
	return "(s_cap " + s + ")"
}
func mkSlice(a, o, l, c string) string {
	return "(mkslice " + a + " " + o + " " + l + " " + c + ")"
}

const (
	minInt64 = "(- 9223372036854775808)"
	maxInt64 = "9223372036854775807"
)

func inInt64(t string) string {
	return "(and (<= " + minInt64 + " " + t + ") (<= " + t + " " + maxInt64 + "))"
}

// loadLoc reads through an address.
func (ex *Exec) loadLoc(st *State, l *Loc) string {
	h := ex.heapTerm(st, l.Heap)
	if l.Idx == "" {
		return sel(h, l.Ref)
	}
	return sel(sel(h, l.Ref), l.Idx)
}

func (ex *Exec) storeLoc(st *State, l *Loc, v string) {
	h := ex.heapTerm(st, l.Heap)
	if l.Idx == "" {
		ex.setHeap(st, l.Heap, sto(h, l.Ref, v))
	} else {
		ex.setHeap(st, l.Heap, sto(h, l.Ref, sto(sel(h, l.Ref), l.Idx, v)))
	}
}

// newRef allocates a fresh reference: ref == alloc, alloc' = alloc + 1, owned.
func (ex *Exec) newRef(st *State, hint string) string {
	r := ex.fresh(hint, "Int")
	st.assume(eq(r, st.alloc))
	na := ex.fresh("alloc", "Int")
	st.assume(eq(na, add(st.alloc, "1")))
	st.alloc = na
	mine := ex.w.ghostHeap("G_mine")
	ex.setHeap(st, mine, sto(ex.heapTerm(st, mine), r, "true"))
	st.assume("(not (RO " + r + "))")
	st.assume(not(sel(ex.heapTerm(st, ex.w.ghostHeap("G_esc")), r)))
	return r
}

// wfRefs: well-formedness of the references inside a value of Go type t (below bound, typed).
func (ex *Exec) wfRefs(t types.Type, term string, bound string) string {
	switch u := t.Underlying().(type) {
	case *types.Pointer, *types.Map, *types.Signature, *types.Chan:
		return and(le("0", term), lt(term, bound),
			or(eq(term, "0"), eq("(rtype "+term+")", fmt.Sprint(ex.w.typeID(refTypeKey(t))))))
	case *types.Slice:
		return and(ex.refsBelow("Slice", term, bound),
			or(eq(sArr(term), "0"), eq("(rtype "+sArr(term)+")", fmt.Sprint(ex.w.typeID("[]"+ex.w.sortOf(u.Elem()))))))
	case *types.Interface:
		return ex.refsBelow("Val", term, bound)
	}
	return "true"
}

// refTypeKey: the allocation class of what a reference of Go type t points to.
func refTypeKey(t types.Type) string {
	switch u := t.Underlying().(type) {
	case *types.Pointer:
		if a, ok := u.Elem().Underlying().(*types.Array); ok {
			return "[]" + a.Elem().String()
		}
		return "*" + typeKey(u.Elem())
	case *types.Map:
		return "map"
	case *types.Signature:
		return "func"
	}
	return typeKey(t)
}

var typeIDs = map[string]int{}

func (w *World) typeID(k string) int {
	if id, ok := typeIDs[k]; ok {
		return id
	}
	id := len(typeIDs) + 1
	typeIDs[k] = id
	return id
}

// embRef is the reference of a struct embedded by value at field idx of struct type st.
func (w *World) embRef(structT types.Type, idx int, ref string) string {
	id := w.embID(structT, idx)
	return fmt.Sprintf("(emb %d %s)", id, ref)
}

var embIDs = map[string]int{}

func (w *World) embID(structT types.Type, idx int) int {
	k := fmt.Sprintf("%s#%d", typeKey(structT), idx)
	if id, ok := embIDs[k]; ok {
		return id
	}
	id := len(embIDs) + 1
	embIDs[k] = id
	return id
}

// loadStruct reads a whole struct value (datatype term) from its fields at ref.
func (ex *Exec) loadStruct(st *State, t types.Type, ref string) string {
	if isEmptyStruct(t) {
		return "unit"
	}
	s := t.Underlying().(*types.Struct)
	sortName := ex.w.structSortName(t)
	parts := []string{"(mk_" + sortName}
	for i := 0; i < s.NumFields(); i++ {
		ft := s.Field(i).Type()
		if _, isStruct := ft.Underlying().(*types.Struct); isStruct && !isEmptyStruct(ft) {
			parts = append(parts, ex.loadStruct(st, ft, ex.w.embRef(t, i, ref)))
			continue
		}
		h := ex.w.fieldHeap(t, i)
		parts = append(parts, sel(ex.heapTerm(st, h), ref))
	}
	return strings.Join(parts, " ") + ")"
}

// storeStruct writes a struct value field-wise at ref.
func (ex *Exec) storeStruct(st *State, t types.Type, ref string, v string) {
	if isEmptyStruct(t) {
		return
	}
	s := t.Underlying().(*types.Struct)
	sortName := ex.w.structSortName(t)
	for i := 0; i < s.NumFields(); i++ {
		ft := s.Field(i).Type()
		fv := fmt.Sprintf("(%s_%s %s)", sortName, s.Field(i).Name(), v)
		if _, isStruct := ft.Underlying().(*types.Struct); isStruct && !isEmptyStruct(ft) {
			ex.storeStruct(st, ft, ex.w.embRef(t, i, ref), fv)
			continue
		}
		h := ex.w.fieldHeap(t, i)
		ex.setHeap(st, h, sto(ex.heapTerm(st, h), ref, fv))
	}
}

func isStructType(t types.Type) bool {
	_, ok := t.Underlying().(*types.Struct)
	return ok
}

func isArrayType(t types.Type) bool {
	_, ok := t.Underlying().(*types.Array)
	return ok
}

func derefType(t types.Type) types.Type {
	if p, ok := t.Underlying().(*types.Pointer); ok {
		return p.Elem()
	}
	panic("derefType of non-pointer " + t.String())
}

// refsBelow: all references inside a value are below alloc (well-formed heap).
func (ex *Exec) refsBelow(sortName, term, alloc string) string {
	switch sortName {
	case "Slice":
		return "(sliceWF " + term + " " + alloc + ")"
	case "Val":
		return "(valWF " + term + " " + alloc + ")"
	}
	return "true"
}

// assumeWF adds the well-formedness facts about a freshly read value of Go type t.
func (ex *Exec) assumeWF(st *State, t types.Type, term string) {
	ex.assumeWFBelow(st, t, term, st.alloc)
}

func (ex *Exec) assumeWFBelow(st *State, t types.Type, term string, bound string) {
	if f := ex.wfRefs(t, term, bound); f != "true" {
		st.assume(f)
	}
	switch u := t.Underlying().(type) {
	case *types.Basic:
		switch u.Kind() {
		case types.Int, types.Int64:
			st.assume(inInt64(term))
		case types.Uint8:
			st.assume(and(le("0", term), le(term, "255")))
		case types.Int32:
			st.assume(and(le("(- 2147483648)", term), le(term, "2147483647")))
		case types.Uint32:
			st.assume(and(le("0", term), le(term, "4294967295")))
		case types.Uint, types.Uint64:
			st.assume(and(le("0", term), le(term, "18446744073709551615")))
		case types.Int8:
			st.assume(and(le("(- 128)", term), le(term, "127")))
		case types.Int16:
			st.assume(and(le("(- 32768)", term), le(term, "32767")))
		case types.Uint16:
			st.assume(and(le("0", term), le(term, "65535")))
		}
	}
}
