package main

// Contract file reader and expression parser.
//
// Contracts live in /repo/zz_verif_contracts.go (build tag verif) as lines
// starting with "//@".  Blocks:
//
//	//@ func <ssa name>            contract of a function in the package
//	//@ interface <I>.<method>     contract every implementation is checked against
//	//@ extern <ssa name>          assumed contract of a dependency
//	//@ functype <name>            contract of calls through a function-typed field/value
//	//@ spec name(a T, ...) T = e  pure macro
//	//@ lemma name: e              code-free obligation
//	//@ axiom name: e              assumed
//
// Clauses inside func/interface/extern blocks:
//
//	requires e | ensures [label:] e | modifies x, y | loop N invariant e |
//	loop N decreases e | decreases e | panics T, U | inline | props C01 C02 |
//	acquires e | releases e | assume e | pure | nopanic

import (
	"fmt"
	"os"
	"strconv"
	"strings"
	"unicode"
)

type Expr struct {
	Op   string // "id","int","str","call","field","index","un","bin","quant","cond","old","typeis","typeas","slice"
	Name string // identifier / operator / field name / quantifier kind / type text
	Args []*Expr
	Vars []Binder
	Pos  string
}

type Binder struct {
	Name string
	Sort string
}

type Clause struct {
	Kind  string // requires, ensures, invariant, decreases, ...
	Label string
	Loop  int
	E     *Expr
	Names []string // for modifies/panics/props
	Text  string
	Line  int
	When  *Expr
	hit   bool // before/after/loop clauses: a matching site was seen while executing the function
	// Checked: an `ensures` written `proves`: in a trusted function it is still proved from the body (ghost-only run:
	// safety assumed), and assumed by callers like every postcondition
	Checked bool
}

type Block struct {
	Kind      string // func, interface, extern, functype
	Name      string
	Clauses   []*Clause
	Line      int
	Inline    bool
	Props     []string
	used      bool
	expanded  bool
	Trusted   bool // contract used at call sites but the body is NOT verified (reported as an assumption)
	Parsetime bool // builds/mutates the syntax tree: may write any non-read-only location; callers havoc its write set wholesale
}

type Spec struct {
	Name   string
	Params []Binder // Sort holds the Go/SMT type text
	Ret    string
	Body   *Expr
}

type Lemma struct {
	Name  string
	E     *Expr
	Axiom bool
	Props []string
	Line  int
}

type ReadSet struct {
	Name       string
	Field      string
	Allowed    []string
	Props      []string
	Line       int
	WritesOnly bool // writeset: only stores (and escaping addresses) count
}

type Contracts struct {
	Guards      [][2]string
	ReadSets    []*ReadSet
	Blocks      map[string]*Block // key: kind+" "+name
	Order       []*Block
	Specs       map[string]*Spec
	Lemmas      []*Lemma
	preludeText string
	RawSMT      []string
	File        string
}

func (c *Contracts) get(kind, name string) *Block {
	return c.Blocks[kind+" "+name]
}

func loadContracts(path string) (*Contracts, error) {
	data, err := os.ReadFile(path)
	if err != nil {
		return nil, err
	}
	cs := &Contracts{Blocks: map[string]*Block{}, Specs: map[string]*Spec{}, File: path}
	var cur *Block
	lines := strings.Split(string(data), "\n")
	// join continuation lines (trailing backslash)
	type ln struct {
		text string
		no   int
	}
	var ls []ln
	for i := 0; i < len(lines); i++ {
		t := strings.TrimSpace(lines[i])
		if !strings.HasPrefix(t, "//@") {
			continue
		}
		t = strings.TrimSpace(strings.TrimPrefix(t, "//@"))
		no := i + 1
		for strings.HasSuffix(t, "\\") && i+1 < len(lines) {
			nt := strings.TrimSpace(lines[i+1])
			if !strings.HasPrefix(nt, "//@") {
				break
			}
			t = strings.TrimSuffix(t, "\\") + " " + strings.TrimSpace(strings.TrimPrefix(nt, "//@"))
			i++
		}
		// strip trailing comment " // ..."
		if k := strings.Index(t, " // "); k >= 0 {
			t = strings.TrimSpace(t[:k])
		}
		if t == "" || strings.HasPrefix(t, "//") {
			continue
		}
		ls = append(ls, ln{t, no})
	}
	for _, l := range ls {
		word, rest := splitWord(l.text)
		fail := func(err error) error { return fmt.Errorf("%s:%d: %v", path, l.no, err) }
		switch word {
		case "func", "interface", "extern", "functype", "closure", "template", "cases":
			kind := word
			if kind == "closure" {
				kind = "func"
			}
			cur = &Block{Kind: kind, Name: strings.TrimSpace(rest), Line: l.no}
			key := kind + " " + cur.Name
			if _, dup := cs.Blocks[key]; dup {
				return nil, fail(fmt.Errorf("duplicate block %s", key))
			}
			cs.Blocks[key] = cur
			cs.Order = append(cs.Order, cur)
		case "spec":
			sp, err := parseSpec(rest)
			if err != nil {
				return nil, fail(err)
			}
			cs.Specs[sp.Name] = sp
			cur = nil
		case "lemma", "axiom":
			k := strings.Index(rest, ":")
			if k < 0 {
				return nil, fail(fmt.Errorf("lemma needs name:"))
			}
			head := strings.Fields(rest[:k])
			e, err := parseExpr(rest[k+1:])
			if err != nil {
				return nil, fail(err)
			}
			lm := &Lemma{Name: head[0], E: e, Axiom: word == "axiom", Line: l.no}
			for _, h := range head[1:] {
				lm.Props = append(lm.Props, strings.Trim(h, "[],"))
			}
			cs.Lemmas = append(cs.Lemmas, lm)
			cur = nil
		case "smt":
			cs.RawSMT = append(cs.RawSMT, rest)
			cur = nil
		case "guarded":
			// guarded <var> by <mutex>
			f := strings.Fields(rest)
			if len(f) != 3 || f[1] != "by" {
				return nil, fail(fmt.Errorf("guarded: expected 'guarded X by M'"))
			}
			cs.Guards = append(cs.Guards, [2]string{f[0], f[2]})
			cur = nil
		case "callsonce":
			// callsonce <name> [props]: f1, f2  -- each listed function has exactly one call through a function value, outside any loop
			k := strings.Index(rest, ":")
			if k < 0 {
				return nil, fail(fmt.Errorf("callsonce needs ':'"))
			}
			head := strings.Fields(rest[:k])
			rs := &ReadSet{Name: head[0], Field: "#callsonce", Allowed: splitNames(rest[k+1:]), Line: l.no}
			for _, h := range head[1:] {
				rs.Props = append(rs.Props, strings.Trim(h, "[],"))
			}
			cs.ReadSets = append(cs.ReadSets, rs)
			cur = nil
		case "readset", "writeset":
			// readset|writeset <name> [props]: T.f only in f1, f2, ...
			k := strings.Index(rest, ":")
			if k < 0 {
				return nil, fail(fmt.Errorf("readset needs ':'"))
			}
			head := strings.Fields(rest[:k])
			body := strings.TrimSpace(rest[k+1:])
			j := strings.Index(body, " only in ")
			if j < 0 {
				return nil, fail(fmt.Errorf("readset: expected 'T.f only in f1, f2'"))
			}
			rs := &ReadSet{Name: head[0], Field: strings.TrimSpace(body[:j]), Allowed: splitNames(body[j+9:]), Line: l.no, WritesOnly: word == "writeset"}
			for _, h := range head[1:] {
				rs.Props = append(rs.Props, strings.Trim(h, "[],"))
			}
			cs.ReadSets = append(cs.ReadSets, rs)
			cur = nil
		default:
			if cur == nil {
				return nil, fail(fmt.Errorf("clause %q outside a block", word))
			}
			cl := &Clause{Kind: word, Line: l.no, Text: rest}
			if word == "proves" {
				word = "ensures"
				cl.Kind = "ensures"
				cl.Checked = true
			}
			switch word {
			case "requires", "assume", "decreases", "acquires", "releases", "unfold":
				if k := strings.Index(rest, " when "); k >= 0 && (word == "releases" || word == "acquires") {
					we, err := parseExpr(rest[k+6:])
					if err != nil {
						return nil, fail(err)
					}
					cl.When = we
					rest = rest[:k]
				}
				e, err := parseExpr(rest)
				if err != nil {
					return nil, fail(err)
				}
				cl.E = e
			case "ensures":
				if k := labelEnd(rest); k > 0 {
					cl.Label = strings.TrimSpace(rest[:k])
					rest = rest[k+1:]
				}
				e, err := parseExpr(rest)
				if err != nil {
					return nil, fail(err)
				}
				cl.E = e
				cl.Text = rest
			case "loop":
				nstr, r2 := splitWord(rest)
				n, err := strconv.Atoi(nstr)
				if err != nil {
					return nil, fail(fmt.Errorf("loop ordinal: %v", err))
				}
				kind, r3 := splitWord(r2)
				if kind != "invariant" && kind != "decreases" && kind != "modifies" && kind != "exit" && kind != "step" {
					return nil, fail(fmt.Errorf("loop clause kind %q", kind))
				}
				cl.Kind = "loop-" + kind
				cl.Loop = n
				if kind == "modifies" {
					cl.Names = splitNames(r3)
				} else {
					if kind == "invariant" || kind == "exit" || kind == "step" {
						if k := labelEnd(r3); k > 0 {
							cl.Label = strings.TrimSpace(r3[:k])
							r3 = r3[k+1:]
						}
					}
					e, err := parseExpr(r3)
					if err != nil {
						return nil, fail(err)
					}
					cl.E = e
					cl.Text = r3
				}
			case "case":
				// case <constant> assume <expr> | case <constant> ensures [label:] <expr>   (blocks of kind `cases`)
				cname, r2 := splitWord(rest)
				what, r3 := splitWord(r2)
				if what != "assume" && what != "ensures" {
					return nil, fail(fmt.Errorf("case clause: expected assume|ensures, got %q", what))
				}
				cl.Kind = "case-" + what
				cl.Names = []string{cname}
				if what == "ensures" {
					if k := labelEnd(r3); k > 0 {
						cl.Label = strings.TrimSpace(r3[:k])
						r3 = r3[k+1:]
					}
				}
				e, err := parseExpr(r3)
				if err != nil {
					return nil, fail(err)
				}
				cl.E = e
				cl.Text = r3
			case "after", "before":
				// after|before <callee>#<k> assert <expr>
				site, r2 := splitWord(rest)
				kw, r3 := splitWord(r2)
				if kw != "assert" {
					return nil, fail(fmt.Errorf("after: expected 'assert'"))
				}
				if k := labelEnd(r3); k > 0 {
					cl.Label = strings.TrimSpace(r3[:k])
					r3 = r3[k+1:]
				}
				e, err := parseExpr(r3)
				if err != nil {
					return nil, fail(err)
				}
				cl.E = e
				cl.Names = []string{site}
			case "modifies", "panics", "props", "reads":
				cl.Names = splitNames(rest)
				if word == "props" {
					cl.Names = strings.FieldsFunc(rest, func(r rune) bool { return r == ',' || r == ' ' || r == '\t' })
					cur.Props = cl.Names
				}
			case "inline":
				cur.Inline = true
			case "parsetime":
				cur.Parsetime = true
			case "trusted":
				cur.Trusted = true
			case "pure", "nopanic", "mayalloc", "implements", "include":
			default:
				return nil, fail(fmt.Errorf("unknown clause %q", word))
			}
			cur.Clauses = append(cur.Clauses, cl)
		}
	}
	// expand `implements I.m` / `include T` into the clauses of the referenced block
	for _, b := range cs.Order {
		if err := cs.expand(b, 0); err != nil {
			return nil, err
		}
	}
	return cs, nil
}

func (cs *Contracts) expand(b *Block, depth int) error {
	if b.expanded {
		return nil
	}
	if depth > 10 {
		return fmt.Errorf("include cycle at %s", b.Name)
	}
	var out []*Clause
	for _, c := range b.Clauses {
		var ref *Block
		switch c.Kind {
		case "implements":
			ref = cs.get("interface", strings.TrimSpace(c.Text))
		case "include":
			ref = cs.get("template", strings.TrimSpace(c.Text))
		default:
			out = append(out, c)
			continue
		}
		if ref == nil {
			return fmt.Errorf("%s:%d: %s %q: no such block", cs.File, c.Line, c.Kind, c.Text)
		}
		if err := cs.expand(ref, depth+1); err != nil {
			return err
		}
		ref.used = true
		if ref.Parsetime {
			b.Parsetime = true
		}
		out = append(out, ref.Clauses...)
		out = append(out, c) // keep the marker
	}
	b.Clauses = out
	b.expanded = true
	return nil
}

// labelEnd finds "label:" at the start of an ensures clause (label is one identifier).
func labelEnd(s string) int {
	s2 := strings.TrimLeft(s, " ")
	skip := len(s) - len(s2)
	for i, r := range s2 {
		if r == ':' {
			if i > 0 && i+1 < len(s2) && s2[i+1] != ':' {
				return skip + i
			}
			return -1
		}
		if !(unicode.IsLetter(r) || unicode.IsDigit(r) || r == '_' || r == '-') {
			return -1
		}
	}
	return -1
}

func splitWord(s string) (string, string) {
	s = strings.TrimSpace(s)
	k := strings.IndexAny(s, " \t")
	if k < 0 {
		return s, ""
	}
	return s[:k], strings.TrimSpace(s[k+1:])
}

func splitNames(s string) []string {
	var out []string
	for _, p := range strings.Split(s, ",") {
		p = strings.TrimSpace(p)
		if p != "" {
			out = append(out, p)
		}
	}
	return out
}

func parseSpec(s string) (*Spec, error) {
	// name(a T, b T) R = body
	k := strings.Index(s, "(")
	if k < 0 {
		return nil, fmt.Errorf("spec: missing (")
	}
	name := strings.TrimSpace(s[:k])
	depth, j := 0, k
	for ; j < len(s); j++ {
		if s[j] == '(' {
			depth++
		} else if s[j] == ')' {
			depth--
			if depth == 0 {
				break
			}
		}
	}
	params := s[k+1 : j]
	rest := s[j+1:]
	eq := strings.Index(rest, "=")
	if eq < 0 {
		return nil, fmt.Errorf("spec: missing =")
	}
	sp := &Spec{Name: name, Ret: strings.TrimSpace(rest[:eq])}
	for _, p := range splitNames(params) {
		f := strings.Fields(p)
		if len(f) != 2 {
			return nil, fmt.Errorf("spec param %q", p)
		}
		sp.Params = append(sp.Params, Binder{f[0], f[1]})
	}
	body, err := parseExpr(rest[eq+1:])
	if err != nil {
		return nil, err
	}
	sp.Body = body
	return sp, nil
}

// ---------------------------------------------------------------- lexer

type tok struct {
	kind string // id, int, str, op, eof
	text string
}

func lex(s string) ([]tok, error) {
	var out []tok
	i := 0
	for i < len(s) {
		c := s[i]
		switch {
		case c == ' ' || c == '\t':
			i++
		case unicode.IsLetter(rune(c)) || c == '_' || c == '$':
			j := i
			for j < len(s) && (unicode.IsLetter(rune(s[j])) || unicode.IsDigit(rune(s[j])) || s[j] == '_' || s[j] == '$') {
				j++
			}
			out = append(out, tok{"id", s[i:j]})
			i = j
		case unicode.IsDigit(rune(c)):
			j := i
			for j < len(s) && unicode.IsDigit(rune(s[j])) {
				j++
			}
			out = append(out, tok{"int", s[i:j]})
			i = j
		case c == '"' || c == '`':
			j := i + 1
			for j < len(s) && s[j] != c {
				j++
			}
			if j >= len(s) {
				return nil, fmt.Errorf("unterminated string")
			}
			out = append(out, tok{"str", s[i+1 : j]})
			i = j + 1
		default:
			for _, op := range []string{"<==>", "==>", "::", "==", "!=", "<=", ">=", "&&", "||", "(", ")", "[", "]", ",", ".", "+", "-", "*", "<", ">", "!", "?", ":", "{", "}"} {
				if strings.HasPrefix(s[i:], op) {
					out = append(out, tok{"op", op})
					i += len(op)
					goto next
				}
			}
			return nil, fmt.Errorf("bad character %q in %q", c, s)
		next:
		}
	}
	out = append(out, tok{"eof", ""})
	return out, nil
}

type parser struct {
	toks []tok
	p    int
	src  string
}

func parseExpr(s string) (*Expr, error) {
	toks, err := lex(s)
	if err != nil {
		return nil, err
	}
	p := &parser{toks: toks, src: s}
	e, err := p.expr()
	if err != nil {
		return nil, fmt.Errorf("%v in %q", err, s)
	}
	if p.peek().kind != "eof" {
		return nil, fmt.Errorf("trailing %q in %q", p.peek().text, s)
	}
	return e, nil
}

func (p *parser) peek() tok { return p.toks[p.p] }
func (p *parser) next() tok { t := p.toks[p.p]; p.p++; return t }
func (p *parser) isOp(s string) bool {
	t := p.peek()
	return t.kind == "op" && t.text == s
}
func (p *parser) expect(s string) error {
	if !p.isOp(s) {
		return fmt.Errorf("expected %q, got %q", s, p.peek().text)
	}
	p.p++
	return nil
}

// expr := quant | cond
func (p *parser) expr() (*Expr, error) {
	t := p.peek()
	if t.kind == "id" && (t.text == "forall" || t.text == "exists") {
		p.next()
		q := &Expr{Op: "quant", Name: t.text}
		for {
			id := p.next()
			if id.kind != "id" {
				return nil, fmt.Errorf("binder expected")
			}
			b := Binder{Name: id.text, Sort: "Int"}
			if p.peek().kind == "id" {
				b.Sort = p.next().text
			}
			q.Vars = append(q.Vars, b)
			if p.isOp(",") {
				p.next()
				continue
			}
			break
		}
		var trig []*Expr
		for p.isOp("{") {
			p.next()
			grp := &Expr{Op: "trigger"}
			for {
				te, err := p.expr()
				if err != nil {
					return nil, err
				}
				grp.Args = append(grp.Args, te)
				if p.isOp(",") {
					p.next()
					continue
				}
				break
			}
			if err := p.expect("}"); err != nil {
				return nil, err
			}
			trig = append(trig, grp)
		}
		if err := p.expect("::"); err != nil {
			return nil, err
		}
		body, err := p.expr()
		if err != nil {
			return nil, err
		}
		q.Args = append([]*Expr{body}, trig...)
		return q, nil
	}
	return p.cond()
}

func (p *parser) cond() (*Expr, error) {
	c, err := p.iff()
	if err != nil {
		return nil, err
	}
	if p.isOp("?") {
		p.next()
		a, err := p.expr()
		if err != nil {
			return nil, err
		}
		if err := p.expect(":"); err != nil {
			return nil, err
		}
		b, err := p.expr()
		if err != nil {
			return nil, err
		}
		return &Expr{Op: "cond", Args: []*Expr{c, a, b}}, nil
	}
	return c, nil
}

func (p *parser) iff() (*Expr, error) {
	l, err := p.impl()
	if err != nil {
		return nil, err
	}
	for p.isOp("<==>") {
		p.next()
		r, err := p.impl()
		if err != nil {
			return nil, err
		}
		l = &Expr{Op: "bin", Name: "<==>", Args: []*Expr{l, r}}
	}
	return l, nil
}

func (p *parser) impl() (*Expr, error) {
	l, err := p.or()
	if err != nil {
		return nil, err
	}
	if p.isOp("==>") {
		p.next()
		var r *Expr
		// allow a quantifier on the right of ==>
		if t := p.peek(); t.kind == "id" && (t.text == "forall" || t.text == "exists") {
			r, err = p.expr()
		} else {
			r, err = p.impl()
		}
		if err != nil {
			return nil, err
		}
		return &Expr{Op: "bin", Name: "==>", Args: []*Expr{l, r}}, nil
	}
	return l, nil
}

func (p *parser) or() (*Expr, error) {
	l, err := p.and()
	if err != nil {
		return nil, err
	}
	for p.isOp("||") {
		p.next()
		r, err := p.and()
		if err != nil {
			return nil, err
		}
		l = &Expr{Op: "bin", Name: "||", Args: []*Expr{l, r}}
	}
	return l, nil
}

func (p *parser) and() (*Expr, error) {
	l, err := p.cmp()
	if err != nil {
		return nil, err
	}
	for p.isOp("&&") {
		p.next()
		var r *Expr
		if t := p.peek(); t.kind == "id" && (t.text == "forall" || t.text == "exists") {
			r, err = p.expr()
		} else {
			r, err = p.cmp()
		}
		if err != nil {
			return nil, err
		}
		l = &Expr{Op: "bin", Name: "&&", Args: []*Expr{l, r}}
	}
	return l, nil
}

func (p *parser) cmp() (*Expr, error) {
	l, err := p.add()
	if err != nil {
		return nil, err
	}
	// chained comparisons a <= b < c
	var res *Expr
	for {
		t := p.peek()
		if t.kind == "op" && (t.text == "==" || t.text == "!=" || t.text == "<" || t.text == "<=" || t.text == ">" || t.text == ">=") {
			p.next()
			r, err := p.add()
			if err != nil {
				return nil, err
			}
			c := &Expr{Op: "bin", Name: t.text, Args: []*Expr{l, r}}
			if res == nil {
				res = c
			} else {
				res = &Expr{Op: "bin", Name: "&&", Args: []*Expr{res, c}}
			}
			l = r
			continue
		}
		break
	}
	if res != nil {
		return res, nil
	}
	return l, nil
}

func (p *parser) add() (*Expr, error) {
	l, err := p.mul()
	if err != nil {
		return nil, err
	}
	for p.isOp("+") || p.isOp("-") {
		op := p.next().text
		r, err := p.mul()
		if err != nil {
			return nil, err
		}
		l = &Expr{Op: "bin", Name: op, Args: []*Expr{l, r}}
	}
	return l, nil
}

func (p *parser) mul() (*Expr, error) {
	l, err := p.unary()
	if err != nil {
		return nil, err
	}
	for p.isOp("*") {
		p.next()
		r, err := p.unary()
		if err != nil {
			return nil, err
		}
		l = &Expr{Op: "bin", Name: "*", Args: []*Expr{l, r}}
	}
	return l, nil
}

func (p *parser) unary() (*Expr, error) {
	if p.isOp("!") || p.isOp("-") {
		op := p.next().text
		x, err := p.unary()
		if err != nil {
			return nil, err
		}
		return &Expr{Op: "un", Name: op, Args: []*Expr{x}}, nil
	}
	return p.postfix()
}

func (p *parser) postfix() (*Expr, error) {
	x, err := p.primary()
	if err != nil {
		return nil, err
	}
	for {
		switch {
		case p.isOp("."):
			p.next()
			id := p.next()
			if id.kind != "id" {
				return nil, fmt.Errorf("field name expected")
			}
			x = &Expr{Op: "field", Name: id.text, Args: []*Expr{x}}
		case p.isOp("["):
			p.next()
			i, err := p.expr()
			if err != nil {
				return nil, err
			}
			if err := p.expect("]"); err != nil {
				return nil, err
			}
			x = &Expr{Op: "index", Args: []*Expr{x, i}}
		default:
			return x, nil
		}
	}
}

// rawUntilClose collects raw token text until the matching ")" (for type arguments).
func (p *parser) rawUntilClose() string {
	depth := 0
	var parts []string
	for {
		t := p.peek()
		if t.kind == "eof" {
			break
		}
		if t.kind == "op" && (t.text == "(" || t.text == "[" || t.text == "{") {
			depth++
		}
		if t.kind == "op" && (t.text == ")" || t.text == "]" || t.text == "}") {
			if depth == 0 {
				break
			}
			depth--
		}
		parts = append(parts, t.text)
		p.next()
	}
	return strings.Join(parts, "")
}

func (p *parser) primary() (*Expr, error) {
	t := p.next()
	switch t.kind {
	case "int":
		return &Expr{Op: "int", Name: t.text}, nil
	case "str":
		return &Expr{Op: "str", Name: t.text}, nil
	case "id":
		if p.isOp("(") {
			p.next()
			switch t.text {
			case "old":
				e, err := p.expr()
				if err != nil {
					return nil, err
				}
				if err := p.expect(")"); err != nil {
					return nil, err
				}
				return &Expr{Op: "old", Args: []*Expr{e}}, nil
			case "isType", "asType":
				e, err := p.expr()
				if err != nil {
					return nil, err
				}
				if err := p.expect(","); err != nil {
					return nil, err
				}
				ty := p.rawUntilClose()
				if err := p.expect(")"); err != nil {
					return nil, err
				}
				op := "typeis"
				if t.text == "asType" {
					op = "typeas"
				}
				return &Expr{Op: op, Name: ty, Args: []*Expr{e}}, nil
			}
			call := &Expr{Op: "call", Name: t.text}
			if !p.isOp(")") {
				for {
					a, err := p.expr()
					if err != nil {
						return nil, err
					}
					call.Args = append(call.Args, a)
					if p.isOp(",") {
						p.next()
						continue
					}
					break
				}
			}
			if err := p.expect(")"); err != nil {
				return nil, err
			}
			return call, nil
		}
		return &Expr{Op: "id", Name: t.text}, nil
	case "op":
		if t.text == "(" {
			e, err := p.expr()
			if err != nil {
				return nil, err
			}
			if err := p.expect(")"); err != nil {
				return nil, err
			}
			return e, nil
		}
	}
	return nil, fmt.Errorf("unexpected %q", t.text)
}

func (e *Expr) String() string {
	switch e.Op {
	case "id", "int":
		return e.Name
	case "str":
		return strconv.Quote(e.Name)
	case "call":
		var as []string
		for _, a := range e.Args {
			as = append(as, a.String())
		}
		return e.Name + "(" + strings.Join(as, ", ") + ")"
	case "field":
		return e.Args[0].String() + "." + e.Name
	case "index":
		return e.Args[0].String() + "[" + e.Args[1].String() + "]"
	case "un":
		return e.Name + e.Args[0].String()
	case "bin":
		return "(" + e.Args[0].String() + " " + e.Name + " " + e.Args[1].String() + ")"
	case "quant":
		var vs []string
		for _, v := range e.Vars {
			vs = append(vs, v.Name)
		}
		return e.Name + " " + strings.Join(vs, ",") + " :: " + e.Args[0].String()
	case "cond":
		return "(" + e.Args[0].String() + " ? " + e.Args[1].String() + " : " + e.Args[2].String() + ")"
	case "old":
		return "old(" + e.Args[0].String() + ")"
	case "typeis":
		return "isType(" + e.Args[0].String() + ", " + e.Name + ")"
	case "typeas":
		return "asType(" + e.Args[0].String() + ", " + e.Name + ")"
	}
	return "?"
}
