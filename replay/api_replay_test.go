package jsonpath

// API-level replay harness shared by several properties (injected with `go test -overlay`).
// A failed obligation has no directly replayable model when it ranges over dynamic values, so the
// replay drives the PUBLIC API with a registered corpus of witness templates (paths x documents,
// including the inputs of every known finding) and checks the property itself on each.  A line
// starting with "REPRODUCED" names the failing input.

import (
	"encoding/json"
	"fmt"
	"math/rand"
	"os"
	"reflect"
	"sort"
	"strings"
	"sync"
	"sync/atomic"
	"testing"
	"time"
)

type apiReplayRecord struct {
	Property   string `json:"property"`
	Obligation string `json:"obligation"`
	Fn         string `json:"fn"`
}

func apiDocs() []string {
	return []string{
		`[1,2,3]`, `[]`, `{}`, `null`, `1`, `"s"`, `true`,
		`{"a":1,"b":2}`, `{"a":{"c":1},"b":{"c":2}}`, `[{"a":0},{"a":1}]`, `[{"a":1,"b":2},{"a":2,"b":2},{"b":1}]`,
		`{"a":[[1,2],[3]],"b":[4]}`, `{"a":1,"list":[10,20]}`, `{"a":2,"list":[10,20]}`, `{"x":[{"a":"s"},{"a":1.5},{"a":null},{"a":true},{"a":[1]},{"a":{"b":1}}]}`,
		`{"a":{"b":{"c":[1,{"d":2}]}},"e":[{"f":1},{"f":2}]}`, `[[1,2],[3,4],[]]`, `[{"a":[1,2]},{"a":{"x":9}}]`, `[{"a":{"x":9}},{"a":[1,2]},{"a":[[3]]}]`, `{"name":"n","items":[1,2,3]}`, `{"b":"x","a":"y","c":{"b":1,"a":2}}`,
		`[{"a":1e400},{"a":1}]`, `{"strict":false,"items":[{"ok":true,"n":1},{"ok":false,"n":5},{"n":7}]}`, `{"want":2,"items":[{"v":1},{"v":2},{"v":3}]}`, `{"items":[{"v":1},{"v":2}]}`, `{"want":5,"items":[{"v":1}]}`,
		`{"ref":[1,2],"list":[{"v":[1,2]},{"v":3}]}`, `[0,1,2,3,4]`, `[0,1,2,3,4,5,6,7,8,9,10,11,12]`, `[0,1,2,3,4,5,6,7,8,9,10,11,12,13,14,15,16,17,18,19,20,21,22,23,24,25,26,27,28,29,30,31,32,33,34,35,36,37,38,39,40,41,42,43,44,45,46,47,48,49,50,51,52,53,54,55,56,57,58,59,60,61,62,63,64,65,66,67,68,69,70,71,72,73,74,75,76,77,78,79,80,81,82,83,84,85,86,87,88,89,90,91,92,93,94,95,96,97,98,99]`, `["b0","b1","b2","b3","b4","b5","b6","b7","b8","b9","b10","b11","b12","b13","b14","b15","b16","b17","b18","b19","b20","b21","b22","b23","b24","b25","b26","b27","b28","b29","b30","b31","b32","b33","b34","b35","b36","b37","b38","b39","b40","b41","b42","b43","b44","b45","b46","b47","b48","b49","b50","b51","b52","b53","b54","b55","b56","b57","b58","b59","b60","b61","b62","b63","b64","b65","b66","b67","b68","b69","b70","b71","b72","b73","b74","b75","b76","b77","b78","b79","b80","b81","b82","b83","b84","b85","b86","b87","b88","b89","b90","b91","b92","b93","b94","b95","b96","b97","b98","b99"]`, `{"flag":true,"list":[{"x":1}]}`, `[{"a":1}]`, `{"k1":{"a":1,"b":2},"k2":{"a":3,"b":4},"k3":{"a":5,"b":6}}`, `{"x":[{"a":[{"b":1},{"b":0}]},{"a":[1,2]},{"a":3}]}`,
	}
}

func apiPaths() []string {
	base := []string{
		`$`, `$.a`, `$.b`, `$.a.c`, `$.*`, `$..a`, `$..*`, `$..c`, `$['a','b']`, `$['a','b'].c`, `$..['a','b'].c`, `$['a',*]`, `$[*,*]`, `$.*.*`,
		`$[0]`, `$[-1]`, `$[5]`, `$[0,1]`, `$[0:2]`, `$[::2]`, `$[::-1]`, `$[1::9223372036854775807]`, `$[-9223372036854775808:]`, `$[*]`, `$[0,0]`, `$[1:0]`, `$[::0]`,
		`$..[0]`, `$..[*]`, `$..[?(@.a)]`, `$.x[?(@.a)]`, `$.x[*].a`, `$.a.*`, `$.a[*][0]`, `$.a.b.c[1].d`, `$.e[*].f`, `$.list[?($.a == 1)]`,
		`$[?(@.a)]`, `$[?(!@.a)]`, `$[?(@.a == 1)]`, `$[?(@.a != 1)]`, `$[?(@.a > 0)]`, `$[?(@.a >= 1)]`, `$[?(@.a < 2)]`, `$[?(@.a <= 1)]`, `$[?(1 == @.a)]`, `$[?(1 < @.a)]`,
		`$[?(@.a == 'x')]`, `$[?(@.a == true)]`, `$[?(@.a == null)]`, `$[?(@.a =~ /s/)]`, `$[?(@.a == $.a)]`, `$[?(@.b != $.b)]`, `$[?(@.b == $.b)]`, `$[?(@.a == @.a)]`,
		`$[?(@.a && @.b)]`, `$[?(@.a || @.b)]`, `$[?(@.a == 1 && @.b == 2)]`, `$[?(@.a == 1 || @.b == 1)]`, `$[?(!@.a && @.b)]`, `$[?((@.a == 1 || @.a == 2) && @.b == 2)]`,
		`$[?($.a == 1)]`, `$[?(1 == $.a)]`, `$[?($.a)]`, `$[?($..a)]`, `$[?(@..a)]`, `$[?(1 == 1)]`, `$[?(1 == 2)]`, `$[?('a' == 1)]`, `$[?(@.a != $.zz)]`, `$[?(!(@.zz == $.zz))]`,
		`$.x[?(@.a == 1.5)]`, `$.x[?(@.a > 1)]`, `$.x[?(@.a == 's')]`, `$.x[?(@.a =~ /^s$/)]`, `$.x[?(@.a == null)]`, `$.x[?(@.a != null)]`, `$.x[?(@.a == true || @.a == 's')]`,
		`$.*.twice()`, `$.a.twice()`, `$.*.max()`, `$.a.*.max()`, `$.a.max()`, `$.*.collect()`, `$.a.collect()`, `$.*.fail()`, `$.*.afail()`, `$[?(@.a.twice() == 2)]`, `$[?(@.max() > 0)]`,
		`$.items[?(($.strict == false || @.ok == true) && @.n > 1)]`, `$.items[?((@.ok == true || $.strict == false) && @.n > 1)]`, `$.items[?((!@.zz || @.ok == true) && @.n > 1)]`,
		`$.items[?(@.v == $.want)]`, `$.items[?(@.v > $.want)]`, `$.list[?(@.v == $.ref)]`, `$.list[?($.ref == @.v)]`, `$[?(@ == $[0])]`, `$[?(@.a == $[0].a)]`, `$[?(@.a < 1e300)]`, `$[?(@.a >= 0)]`,
		`$.items[?(2 >= $.want)]`, `$.items[?(2 > $.want)]`, `$.items[?(1 <= $.want)]`, `$.items[?(3 < $.want)]`, `$.list[?(1 >= $.a)]`, `$.list[?(1 < $.a)]`,
		`$.x[?(@.a[?(@.b > 0)])]`, `$.x[?(@.a[?(@.b > 0)])].a`, `$[?(@.a[?(@ > 0)])]`, `$.x[?(@.a > 0 && @.a[?(@ > 0)])]['a']`, `$.list[?($.flag)]`, `$.list[?(!$.flag)]`, `$.list[?($.flag && @.x == 1)]`, `$[?($[0].a)]`,
		`$[?(@.a)].*`, `$[?(@.a)]..a`, `$[?(@.a)][?(@ > 0)]`,
		`$[?(!@)]`, `$[?(@ && @.a==1)]`, `$[?(@ || @.a==1)]`, `$[?(@ && @ > 1)]`, `$.a[?(!@)]`, `$[?(@ == 1 || @)]`,
		`$[?(@.a[*])]`, `$[?(@.a.*)]`, `$[?(@.*)]`, `$.x[?(@.a[*])]`, `$.x[?(@.a.*)]`, `$.items[*]`, `$.x[*].a[*]`, `$[?(@[*])]`, `$[?(@.a[0:])]`, `$[?(@.a[0,1])]`,
		`$[-2:]`, `$[-3:]`, `$[-2:].slow()`, `$[1:].slow()`, `$[-3:]..a`, `$.*.slow()`, `$..a.slow()`, `$[?(@.a)].slow()`, `$[-2:].twice()`, `$[1:3]`, `$[?(@ > 1)]`,
		`$['a','b'].twice()`, `$['a','b'].collect()`, `$..a.collect()`, `$.zz`, `$.a.zz`, `$[10]`, `$.*.zz`, `$..zz`, `$[?(@.zz)]`, `$.a[0]`, `$[0].a`,
	}
	return base
}

func apiConfig(accessor bool) Config {
	cfg := Config{}
	cfg.SetFilterFunction("twice", func(v interface{}) (interface{}, error) {
		if f, ok := v.(float64); ok {
			return f * 2, nil
		}
		return nil, fmt.Errorf("not a number")
	})
	cfg.SetFilterFunction("slow", func(v interface{}) (interface{}, error) { time.Sleep(300 * time.Microsecond); return v, nil })
	cfg.SetFilterFunction("fail", func(v interface{}) (interface{}, error) { return nil, fmt.Errorf("always") })
	cfg.SetAggregateFunction("max", func(p []interface{}) (interface{}, error) {
		m, found := 0.0, false
		for _, v := range p {
			if f, ok := v.(float64); ok && (!found || f > m) {
				m, found = f, true
			}
		}
		if !found {
			return nil, fmt.Errorf("no number")
		}
		return m, nil
	})
	cfg.SetAggregateFunction("collect", func(p []interface{}) (interface{}, error) { return p, nil })
	cfg.SetAggregateFunction("afail", func(p []interface{}) (interface{}, error) { return nil, fmt.Errorf("always") })
	if accessor {
		cfg.SetAccessorMode()
	}
	return cfg
}

func apiDecode(s string) interface{} {
	var d interface{}
	_ = json.Unmarshal([]byte(s), &d)
	return d
}

func apiSnapshot(v interface{}) string {
	b, err := json.Marshal(v)
	if err != nil {
		return fmt.Sprintf("%#v", v)
	}
	return string(b)
}

func apiPlain(res []interface{}) []interface{} {
	out := make([]interface{}, len(res))
	for i, v := range res {
		if a, ok := v.(Accessor); ok {
			out[i] = a.Get()
		} else {
			out[i] = v
		}
	}
	return out
}

type apiOutcome struct {
	res   string
	err   string
	panic interface{}
}

// apiThorough: the thorough tier widens the corpora (VERIF_TIER=thorough)
var apiThorough = os.Getenv("VERIF_TIER") == "thorough"

// apiCases counts the library calls (Parse, Retrieve, evaluations of a parsed function) a run made
var apiCases int64

func apiCount() { atomic.AddInt64(&apiCases, 1) }

func apiEval(f func(interface{}) ([]interface{}, error), doc interface{}) (o apiOutcome, raw []interface{}) {
	apiCount()
	defer func() {
		if r := recover(); r != nil {
			o.panic = r
		}
	}()
	res, err := f(doc)
	raw = res
	if err != nil {
		o.err = fmt.Sprintf("%T:%v", err, err)
	} else {
		o.res = apiSnapshot(apiPlain(res))
	}
	return
}

func apiParse(t *testing.T, path string, cfg Config) (f func(interface{}) ([]interface{}, error)) {
	defer func() {
		if r := recover(); r != nil {
			t.Errorf("REPRODUCED: Parse(%q) panicked: %v", path, r)
			f = nil
		}
	}()
	apiCount()
	fn, err := Parse(path, cfg)
	if err != nil {
		return nil
	}
	return fn
}

func runtimeErrOK(err error) bool {
	switch err.(type) {
	case ErrorMemberNotExist, ErrorTypeUnmatched, ErrorFunctionFailed:
		return true
	}
	return false
}

// C03 / C20: total evaluation
func apiCheckTotal(t *testing.T, docs []interface{}, names []string) {
	for _, acc := range []bool{false, true} {
		cfg := apiConfig(acc)
		for _, p := range apiPaths() {
			f := apiParse(t, p, cfg)
			if f == nil {
				continue
			}
			for i, d := range docs {
				func() {
					defer func() {
						if r := recover(); r != nil {
							t.Errorf("REPRODUCED: evaluating %q on %s panicked: %v", p, names[i], r)
						}
					}()
					res, err := f(d)
					switch {
					case err == nil && len(res) == 0:
						t.Errorf("REPRODUCED: %q on %s returned an empty success", p, names[i])
					case err != nil && res != nil:
						t.Errorf("REPRODUCED: %q on %s returned both a result and an error", p, names[i])
					case err != nil && !runtimeErrOK(err):
						t.Errorf("REPRODUCED: %q on %s returned error of type %T", p, names[i], err)
					}
				}()
				if t.Failed() {
					return
				}
			}
		}
	}
}

// C04: the document is unchanged
func apiCheckUnchanged(t *testing.T) {
	for _, acc := range []bool{false, true} {
		cfg := apiConfig(acc)
		for _, p := range apiPaths() {
			f := apiParse(t, p, cfg)
			if f == nil {
				continue
			}
			for _, ds := range apiDocs() {
				d := apiDecode(ds)
				before := apiSnapshot(d)
				apiEval(f, d)
				if after := apiSnapshot(d); after != before {
					t.Errorf("REPRODUCED: evaluating %q (accessor=%v) changed the document %s into %s", p, acc, before, after)
					return
				}
			}
		}
		// the same decoded document through every path in turn: a buffer that kept pointing into the document after one
		// call would be written by a later one
		var fs []func(interface{}) ([]interface{}, error)
		var names []string
		for _, p := range apiPaths() {
			if f := apiParse(t, p, cfg); f != nil {
				fs = append(fs, f)
				names = append(names, p)
			}
		}
		for _, ds := range apiDocs() {
			if len(ds) > 400 {
				continue
			}
			d := apiDecode(ds)
			before := apiSnapshot(d)
			for i, f := range fs {
				apiEval(f, d)
				if after := apiSnapshot(d); after != before {
					prev := "-"
					if i > 0 {
						prev = names[i-1]
					}
					t.Errorf("REPRODUCED: after %q (preceded by %q, accessor=%v) the document %s has become %s", names[i], prev, acc, before, after)
					return
				}
			}
		}
	}
}

// C05: every call equals a fresh Retrieve; earlier results never change
func apiCheckPure(t *testing.T) {
	docs := apiDocs()
	for _, p := range apiPaths() {
		cfg := apiConfig(false)
		f := apiParse(t, p, cfg)
		if f == nil {
			continue
		}
		type kept struct {
			raw  []interface{}
			snap string
			doc  string
		}
		var history []kept
		seq := []int{}
		for i := range docs {
			seq = append(seq, i)
		}
		for i := range docs {
			seq = append(seq, len(docs)-1-i)
		}
		for _, di := range seq {
			d := apiDecode(docs[di])
			got, raw := apiEval(f, d)
			fresh := apiParse(t, p, apiConfig(false))
			want, _ := apiEval(fresh, apiDecode(docs[di]))
			if got != want {
				t.Errorf("REPRODUCED: %q on %s: call #%d of the parsed function gives %+v, a fresh Retrieve gives %+v", p, docs[di], len(history)+1, got, want)
				return
			}
			for _, h := range history {
				if now := apiSnapshot(h.raw); now != h.snap {
					t.Errorf("REPRODUCED: %q: the result returned earlier for %s changed from %s to %s after evaluating %s", p, h.doc, h.snap, now, docs[di])
					return
				}
			}
			if raw != nil {
				history = append(history, kept{raw, apiSnapshot(raw), docs[di]})
			}
		}
	}
}

// apiCheckAfterLarge (C05): what a call returns does not depend on an earlier call having produced thousands of results
// (pooled buffers grown beyond their usual size)
func apiCheckAfterLarge(t *testing.T) {
	cfg := apiConfig(false)
	type probe struct {
		f    func(interface{}) ([]interface{}, error)
		p    string
		doc  string
		want apiOutcome
	}
	var probes []probe
	small := []string{`{"a":"x","b":{"c":1}}`, `[1,2,3]`, `{"b":{"c":1}}`, `[{"a":1},{"a":2}]`, `{}`}
	for _, p := range []string{`$.a`, `$.b.*.missing`, `$[*]`, `$..c`, `$[?(@.a > 1)]`, `$.*`, `$.b.c`, `$[0:2]`, `$..*`, `$.*.max()`, `$[?($[0])]`} {
		f := apiParse(t, p, cfg)
		if f == nil {
			continue
		}
		for _, ds := range small {
			o, _ := apiEval(f, apiDecode(ds))
			probes = append(probes, probe{f, p, ds, o})
		}
	}
	var big []interface{}
	bigObj := map[string]interface{}{}
	for i := 0; i < 3000; i++ {
		big = append(big, float64(i))
		bigObj[fmt.Sprintf("k%04d", i)] = map[string]interface{}{"a": float64(i)}
	}
	for _, p := range []string{`$[*]`, `$..*`, `$[?(@ >= 0)]`, `$.*`, `$.*.a`, `$[0:3000]`, `$..a`} {
		apiCount()
		_, _ = Retrieve(p, big, cfg)
		apiCount()
		_, _ = Retrieve(p, bigObj, cfg)
		for _, pr := range probes {
			if got, _ := apiEval(pr.f, apiDecode(pr.doc)); got != pr.want {
				t.Errorf("REPRODUCED: after evaluating %q on a 3000-member document, %q on %s gives %+v; before it gave %+v", p, pr.p, pr.doc, got, pr.want)
				return
			}
			apiCount()
			res, err := Retrieve(pr.p, apiDecode(pr.doc), cfg)
			var o apiOutcome
			if err != nil {
				o.err = fmt.Sprintf("%T:%v", err, err)
			} else {
				o.res = apiSnapshot(apiPlain(res))
			}
			if o != pr.want {
				t.Errorf("REPRODUCED: after evaluating %q on a 3000-member document, a fresh Retrieve(%q) on %s gives %+v; before it gave %+v", p, pr.p, pr.doc, o, pr.want)
				return
			}
		}
	}
}

// apiCheckRegexConcurrent (C06): the regular-expression comparison under concurrent calls of one parsed function on texts
// long enough that matching takes most of each call
func apiCheckRegexConcurrent(t *testing.T) {
	f := apiParse(t, `$[?(@ =~ /^x*a$/)]`, Config{})
	g2 := apiParse(t, `$[?(@.t =~ /a$/ && @.n > 1)].n`, Config{})
	if f == nil || g2 == nil {
		return
	}
	long := strings.Repeat("x", 20000)
	var arr, objs []interface{}
	for i := 0; i < 40; i++ {
		tail := "a"
		if i%2 == 1 {
			tail = "b"
		}
		arr = append(arr, long+tail)
		objs = append(objs, map[string]interface{}{"t": long + tail, "n": float64(i)})
	}
	want1, _ := apiEval(f, arr)
	want2, _ := apiEval(g2, objs)
	rounds := 12
	if apiThorough {
		rounds = 120
	}
	var wg sync.WaitGroup
	var mu sync.Mutex
	var msg string
	for g := 0; g < 4; g++ {
		wg.Add(1)
		go func() {
			defer wg.Done()
			for k := 0; k < rounds; k++ {
				o1, _ := apiEval(f, arr)
				o2, _ := apiEval(g2, objs)
				if o1 != want1 || o2 != want2 {
					mu.Lock()
					msg = "REPRODUCED: a regular-expression filter returns another selection under concurrent calls than alone"
					mu.Unlock()
					return
				}
			}
		}()
	}
	wg.Wait()
	if msg != "" {
		t.Error(msg)
	}
}

// C06: concurrent calls return what sequential calls return
func apiCheckConcurrent(t *testing.T) {
	docs := apiDocs()
	paths := apiPaths()
	cfg := apiConfig(false)
	type job struct {
		f    func(interface{}) ([]interface{}, error)
		p    string
		want []apiOutcome
	}
	var jobs []job
	shared := make([]interface{}, len(docs))
	for i, ds := range docs {
		shared[i] = apiDecode(ds)
	}
	for _, p := range paths {
		f := apiParse(t, p, cfg)
		if f == nil {
			continue
		}
		j := job{f: f, p: p}
		for _, ds := range docs {
			o, _ := apiEval(f, apiDecode(ds))
			j.want = append(j.want, o)
		}
		jobs = append(jobs, j)
	}
	var wg sync.WaitGroup
	var mu sync.Mutex
	var msgs []string
	for g := 0; g < 8; g++ {
		wg.Add(1)
		go func(g int) {
			defer wg.Done()
			for k := 0; k < 3; k++ {
				for ji := range jobs {
					j := jobs[(ji+g*7)%len(jobs)]
					if g%2 == 1 {
						apiCount()
						_, _ = Parse(paths[(ji+g)%len(paths)], cfg)
					}
					for dk := range docs {
						di := (dk*(g+1) + g) % len(docs)
						o, _ := apiEval(j.f, shared[di])
						if o != j.want[di] {
							mu.Lock()
							msgs = append(msgs, fmt.Sprintf("REPRODUCED: %q on %s under concurrency gives %+v, alone %+v", j.p, docs[di], o, j.want[di]))
							mu.Unlock()
							return
						}
					}
				}
			}
		}(g)
	}
	wg.Wait()
	sort.Strings(msgs)
	if len(msgs) > 0 {
		t.Error(msgs[0])
	}
}

// apiCheckParked: a deterministic schedule instead of a race - a user function parks one evaluation in the middle of a step
// loop (first call), meanwhile other evaluations run to completion on the same goroutine pool objects (key sorts, index
// lists, result buffers, large results), then the parked one resumes: it must return what it returns alone.
func apiCheckParked(t *testing.T) {
	docs := []string{`{"on":true,"a":{"a":1,"b":2},"b":{"a":3,"c":[1,2]},"c":{"a":5}}`, `[{"a":1,"b":2},{"a":2,"c":3},{"a":3},{"b":[4,5,6]}]`}
	disturbDocs := []interface{}{apiDecode(`{"w":{"p":10,"q":11},"x":{"p":20},"y":{"p":30,"r":1},"z":{"p":40}}`), apiDecode(`[[9,8,7,6],[5,4],[3,2,1,0,-1]]`)}
	disturb := []string{`$.*`, `$.*.*`, `$..*`, `$[?(@.p)].p`, `$[?($.w)].*`, `$[::-1]`, `$[0,1,2][1:]`, `$['w','x','y']`, `$[*][0,1]`, `$..[0]`}
	var dfs []func(interface{}) ([]interface{}, error)
	for _, p := range disturb {
		if f, err := Parse(p); err == nil {
			dfs = append(dfs, f)
		}
	}
	for _, path := range []string{`$[?(1 == 1)].park()`, `$[?($.on == true)].park()`, `$[?($.on == true)].*.park()`, `$.*.park()`, `$.*.*.park()`, `$..a.park()`, `$[?(@.a)].park()`, `$[?(@.a)].a.park()`,
		`$['a','b','c'].park()`, `$['a','b'].*.park()`, `$[0:3].park()`, `$[::-1].park()`, `$[0,1,2].a.park()`, `$[*].*.park()`, `$..[?(@.a)].park()`} {
		for _, ds := range docs {
			var parkAt, calls int64
			entered, release := make(chan struct{}, 1), make(chan struct{})
			cfg := Config{}
			cfg.SetFilterFunction("park", func(v interface{}) (interface{}, error) {
				if n := atomic.AddInt64(&calls, 1); n == atomic.LoadInt64(&parkAt) {
					entered <- struct{}{}
					<-release
				}
				return v, nil
			})
			apiCount()
			f, err := Parse(path, cfg)
			if err != nil {
				continue
			}
			alone, _ := apiEval(f, apiDecode(ds))
			total := atomic.LoadInt64(&calls)
			for at := int64(1); at <= total && at <= 3; at++ {
				atomic.StoreInt64(&calls, 0)
				atomic.StoreInt64(&parkAt, at)
				release = make(chan struct{})
				done := make(chan apiOutcome, 1)
				go func() {
					o, _ := apiEval(f, apiDecode(ds))
					done <- o
				}()
				select {
				case <-entered:
					for _, df := range dfs {
						for _, dd := range disturbDocs {
							apiCount()
							_, _ = df(dd)
						}
					}
					close(release)
				case o := <-done:
					done <- o
				case <-time.After(10 * time.Second):
					t.Errorf("REPRODUCED: %q on %s: the evaluation neither reached its function nor finished", path, ds)
					return
				}
				select {
				case o := <-done:
					if o != alone {
						t.Errorf("REPRODUCED: %q on %s gives %+v when other evaluations run while its function (call %d) is parked, alone %+v", path, ds, o, at, alone)
						return
					}
				case <-time.After(10 * time.Second):
					t.Errorf("REPRODUCED: %q on %s: the parked evaluation did not finish", path, ds)
					return
				}
				atomic.StoreInt64(&parkAt, 0)
			}
		}
	}
}

// diffCount: number of leaf positions at which two JSON-like values differ
func apiDiffCount(a, b interface{}) int {
	switch x := a.(type) {
	case map[string]interface{}:
		y, ok := b.(map[string]interface{})
		if !ok {
			return 1
		}
		n := 0
		for k, v := range x {
			w, ok := y[k]
			if !ok {
				n++
				continue
			}
			n += apiDiffCount(v, w)
		}
		for k := range y {
			if _, ok := x[k]; !ok {
				n++
			}
		}
		return n
	case []interface{}:
		y, ok := b.([]interface{})
		if !ok || len(x) != len(y) {
			return 1
		}
		n := 0
		for i := range x {
			n += apiDiffCount(x[i], y[i])
		}
		return n
	}
	if reflect.DeepEqual(a, b) {
		return 0
	}
	return 1
}

// C12 / C13: accessor mode returns one accessor per plain result, Get yields that value, Set writes
// exactly one location, Get is live
func apiCheckAccessor(t *testing.T) {
	for _, p := range apiPaths() {
		plain := apiParse(t, p, apiConfig(false))
		acc := apiParse(t, p, apiConfig(true))
		if plain == nil || acc == nil {
			if (plain == nil) != (acc == nil) {
				t.Errorf("REPRODUCED: %q parses in one mode only", p)
			}
			continue
		}
		for _, ds := range apiDocs() {
			po, _ := apiEval(plain, apiDecode(ds))
			ao, raw := apiEval(acc, apiDecode(ds))
			if po != ao {
				t.Errorf("REPRODUCED: %q on %s: plain mode gives %+v, accessor mode (through Get) gives %+v", p, ds, po, ao)
				return
			}
			for i := range raw {
				if n := len(raw); n > 12 && !apiThorough && i > 1 && i != n/2 && i < n-2 {
					continue // long result lists: the ends and the middle (every accessor in the thorough tier)
				}
				d := apiDecode(ds)
				res, err := acc(d)
				if err != nil || i >= len(res) {
					break
				}
				a, ok := res[i].(Accessor)
				if !ok {
					t.Errorf("REPRODUCED: %q on %s: result %d in accessor mode is %T", p, ds, i, res[i])
					return
				}
				if a.Set == nil {
					continue
				}
				old := a.Get()
				sentinel := "\x00verif-sentinel"
				a.Set(sentinel)
				if got := a.Get(); got != sentinel {
					t.Errorf("REPRODUCED: %q on %s: accessor %d: Get after Set returns %v", p, ds, i, got)
					return
				}
				if n := apiDiffCount(apiDecode(ds), d); n != 1 {
					t.Errorf("REPRODUCED: %q on %s: Set through accessor %d changed %d locations (document now %s)", p, ds, i, n, apiSnapshot(d))
					return
				}
				a.Set(old)
				if n := apiDiffCount(apiDecode(ds), d); n != 0 {
					t.Errorf("REPRODUCED: %q on %s: restoring through accessor %d leaves %d differences", p, ds, i, n)
					return
				}
			}
		}
	}
	// liveness: Get reflects a later in-place update
	d := map[string]interface{}{"a": 1.0, "l": []interface{}{1.0, 2.0}}
	for _, p := range []string{`$.a`, `$.l[1]`, `$.*`, `$..a`, `$['a']`, `$.l[*]`} {
		f := apiParse(t, p, apiConfig(true))
		if f == nil {
			continue
		}
		res, err := f(d)
		if err != nil {
			continue
		}
		d["a"] = 5.0
		d["l"].([]interface{})[1] = 6.0
		for _, r := range res {
			if a, ok := r.(Accessor); ok {
				v := a.Get()
				if v == 1.0 && p != `$.l[*]` && p != `$.*` || v == 2.0 {
					t.Errorf("REPRODUCED: %q: Get returned the stale value %v after the location was updated in place", p, v)
					return
				}
			}
		}
		d["a"] = 1.0
		d["l"].([]interface{})[1] = 2.0
	}
}

// C09 / C10: filter logic over the members of one container
func apiSelect(t *testing.T, filter string, doc interface{}, container string) (ids map[int]bool, ok bool) {
	defer func() {
		if r := recover(); r != nil {
			t.Errorf("REPRODUCED: filter %q panicked: %v", filter, r)
			ok = false
		}
	}()
	apiCount()
	res, err := Retrieve("$."+container+"[?("+filter+")]", doc)
	ids = map[int]bool{}
	if err != nil {
		switch err.(type) {
		case ErrorMemberNotExist:
			return ids, true
		case ErrorInvalidSyntax, ErrorInvalidArgument, ErrorNotSupported, ErrorFunctionNotFound:
			return nil, false
		}
		t.Errorf("REPRODUCED: filter %q failed with %T: %v", filter, err, err)
		return nil, false
	}
	for _, r := range res {
		m, isMap := r.(map[string]interface{})
		if !isMap {
			continue
		}
		switch id := m["id"].(type) {
		case float64:
			ids[int(id)] = true
		case json.Number:
			f, _ := id.Float64()
			ids[int(f)] = true
		}
	}
	return ids, true
}

func apiSetEq(a, b map[int]bool) bool {
	if len(a) != len(b) {
		return false
	}
	for k := range a {
		if !b[k] {
			return false
		}
	}
	return true
}

// C09 / C10: path-to-path equality over container-valued operands against reflect.DeepEqual (float64 decoding is the
// reference: no spelling variation there), in both operand orders and negated, with the same document decoded with UseNumber
func apiCheckDeepEquality(t *testing.T) {
	vals := []string{`null`, `1`, `"s"`, `true`, `[1]`, `[1,2]`, `[null]`, `[]`, `{}`, `{"a":null}`, `{"b":1}`, `{"a":1}`, `{"a":null,"b":1}`, `{"b":1,"a":null}`, `{"b":null,"c":1}`,
		`{"a":{"x":null}}`, `{"a":{"y":2}}`, `[[null]]`, `[[]]`, `[{"a":null}]`, `[{"b":1}]`, `{"a":[null]}`, `{"a":[]}`, `0`, `-0`, `1.0`, `"1"`, `false`, `{"a":1,"b":null}`, `{"a":1,"c":1}`}
	var members []string
	for i, v := range vals {
		members = append(members, fmt.Sprintf(`{"id":%d,"v":%s}`, i, v))
	}
	for ri, ref := range vals {
		src := `{"ref":` + ref + `,"m":[` + strings.Join(members, ",") + `]}`
		plain := apiDecode(src)
		want := map[int]bool{}
		refv := plain.(map[string]interface{})["ref"]
		for i, m := range plain.(map[string]interface{})["m"].([]interface{}) {
			if reflect.DeepEqual(m.(map[string]interface{})["v"], refv) {
				want[i] = true
			}
		}
		for _, doc := range []interface{}{plain, refDecode(src, true)} {
			for _, q := range []struct {
				filter string
				neg    bool
			}{{`@.v == $.ref`, false}, {`$.ref == @.v`, false}, {`@.v != $.ref`, true}, {`$.ref != @.v`, true}} {
				got, ok := apiSelect(t, q.filter, doc, "m")
				if !ok {
					if t.Failed() {
						return
					}
					got = map[int]bool{}
				}
				exp := map[int]bool{}
				for i := range vals {
					if want[i] != q.neg {
						exp[i] = true
					}
				}
				if !apiSetEq(got, exp) {
					t.Errorf("REPRODUCED: %q with $.ref = %s (reference %d) selects %v, reflect.DeepEqual on the float64 decoding selects %v", q.filter, ref, ri, got, exp)
					return
				}
			}
		}
	}
}

// C10: numeric comparison is by value: every spelling of a number selects the same members whether the document was
// decoded to float64 or to json.Number
func apiCheckNumberSpellings(t *testing.T) {
	spell := []string{"0", "-0", "1", "1.0", "1e0", "10", "1e1", "1E2", "100", "0.1", "1e-1", "-1", "-1.5", "18446744073709551615", "9223372036854775807", "9223372036854775808",
		"-9223372036854775808", "-9223372036854775809", "1e19", "123456789012345678901234567890", "0.30000000000000004", "1.7976931348623157e308", "5e-324", "00.5e1"}
	var ok []string
	for _, sp := range spell {
		var probe interface{}
		if json.Unmarshal([]byte(sp), &probe) == nil {
			ok = append(ok, sp) // only spellings JSON accepts
		}
	}
	src := `[`
	for i, sp := range ok {
		if i > 0 {
			src += ","
		}
		src += fmt.Sprintf(`{"id":%d,"v":%s}`, i, sp)
	}
	src += `]`
	plain, numbered := refDecode(src, false), refDecode(src, true)
	ids := func(doc interface{}, path string) string {
		apiCount()
		res, err := Retrieve(path, doc)
		if err != nil {
			return fmt.Sprintf("%T", err)
		}
		return apiSnapshot(res)
	}
	for _, sp := range ok {
		for _, op := range []string{"==", "!=", "<", "<=", ">", ">="} {
			for _, form := range []string{"$[?(@.v %s %s)].id", "$[?(%[2]s %[1]s @.v)].id"} {
				path := fmt.Sprintf(form, op, sp)
				if a, b := ids(plain, path), ids(numbered, path); a != b {
					t.Errorf("REPRODUCED: %q selects %s on the float64 document and %s on the json.Number document", path, a, b)
					return
				}
			}
		}
	}
	// a number is never a string, a bool or null, whatever its decoding: literals of the other types, spelled like the numbers
	for _, sp := range ok {
		for _, form := range []string{`$[?(@.v == '%s')].id`, `$[?('%s' == @.v)].id`, `$[?(@.v != "%s")].id`, `$[?(@.v =~ /^%s$/)].id`, `$[?(@.v =~ /%s/)].id`} {
			path := fmt.Sprintf(form, strings.Replace(sp, ".", "\\.", -1))
			if strings.Contains(form, "'") || strings.Contains(form, `"`) {
				path = fmt.Sprintf(form, sp)
			}
			if a, b := ids(plain, path), ids(numbered, path); a != b {
				t.Errorf("REPRODUCED: %q selects %s on the float64 document and %s on the json.Number document", path, a, b)
				return
			}
		}
	}
	for _, lit := range []string{`true`, `false`, `null`, `''`, `'0'`} {
		for _, form := range []string{`$[?(@.v == %s)].id`, `$[?(%s == @.v)].id`} {
			path := fmt.Sprintf(form, lit)
			if a, b := ids(plain, path), ids(numbered, path); a != b || !strings.Contains(a, "ErrorMemberNotExist") {
				t.Errorf("REPRODUCED: %q selects %s on the float64 document and %s on the json.Number document (a number equals no %s)", path, a, b, lit)
				return
			}
		}
	}
	for i := range ok {
		for _, op := range []string{"==", "<", ">="} {
			path := fmt.Sprintf("$[?(@.v %s $[%d].v)].id", op, i)
			if a, b := ids(plain, path), ids(numbered, path); a != b {
				t.Errorf("REPRODUCED: %q selects %s on the float64 document and %s on the json.Number document", path, a, b)
				return
			}
		}
	}
}

func apiCheckFilters(t *testing.T) {
	src := `{"k":1,"s":"x","n":null,"t":true,"big":1e400,
	 "m":[{"id":0,"a":1},{"id":1,"a":2},{"id":2,"a":"x"},{"id":3,"a":true},{"id":4,"a":null},{"id":5},{"id":6,"a":1.5,"b":1},{"id":7,"a":[1]},{"id":8,"a":{"c":1}},{"id":9,"a":0,"b":2},{"id":10,"a":1e400}],
	 "o":{"p":{"id":0,"a":1},"q":{"id":1,"a":2},"r":{"id":2,"a":"x"},"s":{"id":5},"u":{"id":6,"a":1.5,"b":1}},
	 "e":[], "one":[{"id":0,"a":1}], "none":[{"id":0},{"id":1}]}`
	var docs []interface{}
	dec := json.NewDecoder(strings.NewReader(src))
	dec.UseNumber()
	var dn interface{}
	_ = dec.Decode(&dn)
	plainSrc := strings.Replace(strings.Replace(src, `"big":1e400,`, ``, 1), `,{"id":10,"a":1e400}`, ``, 1)
	docs = append(docs, apiDecode(plainSrc), dn)
	atoms := []string{`@.a`, `@.b`, `!@.a`, `@.a == 1`, `@.a != 1`, `1 == @.a`, `1 != @.a`, `@.a > 1`, `1 < @.a`, `@.a >= 1`, `1 <= @.a`, `@.a < 2`, `2 > @.a`, `@.a <= 1`, `1 >= @.a`,
		`@.a == 'x'`, `'x' == @.a`, `@.a != 'x'`, `@.a =~ /x/`, `@.a == true`, `@.a == null`, `@.a == $.k`, `$.k == @.a`, `@.a != $.k`, `@.a == $.zz`, `@.a != $.zz`, `@.zz == $.zz`, `@.zz != $.zz`,
		`$.k == 1`, `1 == $.k`, `$.k != 1`, `$.k > 0`, `0 < $.k`, `$.k >= 1`, `$.k < 1`, `1 < 2`, `2 < 1`, `1 == 1`, `1 == 2`, `1 != 2`, `1 != 1`, `'a' != 'a'`, `'a' != 'b'`, `2 >= 3`, `'a' == 1`, `$.zz`, `$.k`, `@.a > $.k`, `$.k < @.a`, `@.a >= $.k`, `@.b == $.k`, `@.a == $.s`, `@.a == $.n`, `@.a == $.t`}
	mirror := map[string]string{`@.a == 1`: `1 == @.a`, `@.a != 1`: `1 != @.a`, `@.a > 1`: `1 < @.a`, `@.a >= 1`: `1 <= @.a`, `@.a < 2`: `2 > @.a`, `@.a <= 1`: `1 >= @.a`, `@.a == 'x'`: `'x' == @.a`,
		`@.a == $.k`: `$.k == @.a`, `$.k == 1`: `1 == $.k`, `$.k > 0`: `0 < $.k`, `@.a > $.k`: `$.k < @.a`}
	negation := map[string]string{`@.a == 1`: `@.a != 1`, `1 == @.a`: `1 != @.a`, `@.a == 'x'`: `@.a != 'x'`, `@.a == $.k`: `@.a != $.k`, `@.a == $.zz`: `@.a != $.zz`, `@.zz == $.zz`: `@.zz != $.zz`, `$.k == 1`: `$.k != 1`, `@.a`: `!@.a`}
	for di, doc := range docs {
		for _, cont := range []string{"m", "o", "e", "one", "none"} {
			all, ok := apiSelect(t, `@.id || !@.id`, doc, cont)
			if !ok {
				continue
			}
			sel := map[string]map[int]bool{}
			for _, a := range atoms {
				if s, ok := apiSelect(t, a, doc, cont); ok {
					sel[a] = s
				}
				if t.Failed() {
					return
				}
			}
			for a, b := range mirror {
				if sel[a] != nil && sel[b] != nil && !apiSetEq(sel[a], sel[b]) {
					t.Errorf("REPRODUCED: doc %d container %s: %q selects %v but its mirror %q selects %v", di, cont, a, sel[a], b, sel[b])
					return
				}
			}
			for a, b := range negation {
				if sel[a] == nil || sel[b] == nil {
					continue
				}
				comp := map[int]bool{}
				for id := range all {
					if !sel[a][id] {
						comp[id] = true
					}
				}
				if !apiSetEq(comp, sel[b]) {
					t.Errorf("REPRODUCED: doc %d container %s: %q selects %v, %q selects %v, not the complement within %v", di, cont, a, sel[a], b, sel[b], all)
					return
				}
			}
			// <= is < or == ; >= is > or ==  (number literals, including 0 and values present in the members)
			for _, lit := range []string{"0", "1", "1.5", "2", "-1"} {
				for _, ops := range [][3]string{{"<=", "<", "=="}, {">=", ">", "=="}} {
					whole, ok0 := apiSelect(t, "@.a "+ops[0]+" "+lit, doc, cont)
					strict, ok1 := apiSelect(t, "@.a "+ops[1]+" "+lit, doc, cont)
					equal, ok2 := apiSelect(t, "@.a "+ops[2]+" "+lit, doc, cont)
					if !ok0 || !ok1 || !ok2 {
						continue
					}
					u := map[int]bool{}
					for id := range strict {
						u[id] = true
					}
					for id := range equal {
						u[id] = true
					}
					if !apiSetEq(u, whole) {
						t.Errorf("REPRODUCED: doc %d container %s: `@.a %s %s` selects %v, `%s` union `==` selects %v", di, cont, ops[0], lit, whole, ops[1], u)
						return
					}
				}
			}
			for i, a := range atoms {
				for j, b := range atoms {
					if (i+j)%3 != 0 && i != j { // a third of the pairs: keeps the run short
						continue
					}
					if sel[a] == nil || sel[b] == nil {
						continue
					}
					and, ok1 := apiSelect(t, "("+a+") && ("+b+")", doc, cont)
					or, ok2 := apiSelect(t, "("+a+") || ("+b+")", doc, cont)
					if !ok1 || !ok2 {
						continue
					}
					wantAnd, wantOr := map[int]bool{}, map[int]bool{}
					for id := range sel[a] {
						wantOr[id] = true
						if sel[b][id] {
							wantAnd[id] = true
						}
					}
					for id := range sel[b] {
						wantOr[id] = true
					}
					if !apiSetEq(and, wantAnd) {
						t.Errorf("REPRODUCED: doc %d container %s: (%s) && (%s) selects %v, the intersection is %v", di, cont, a, b, and, wantAnd)
						return
					}
					if !apiSetEq(or, wantOr) {
						t.Errorf("REPRODUCED: doc %d container %s: (%s) || (%s) selects %v, the union is %v", di, cont, a, b, or, wantOr)
						return
					}
					// the same without parentheses (atoms hold no logical operator), and a three-operand chain
					and2, ok3 := apiSelect(t, a+" && "+b, doc, cont)
					or2, ok4 := apiSelect(t, a+" || "+b, doc, cont)
					chain, ok5 := apiSelect(t, a+" && "+b+" || "+a, doc, cont)
					if (ok3 && !apiSetEq(and2, wantAnd)) || (ok4 && !apiSetEq(or2, wantOr)) || (ok5 && !apiSetEq(chain, sel[a])) {
						t.Errorf("REPRODUCED: doc %d container %s: %s && %s selects %v (intersection %v), %s || %s selects %v (union %v), %s && %s || %s selects %v (absorption: %v)", di, cont, a, b, and2, wantAnd, a, b, or2, wantOr, a, b, a, chain, sel[a])
						return
					}
				}
			}
		}
	}
	// C10: number decoding does not change the selection
	for _, a := range atoms {
		for _, cont := range []string{"m", "o"} {
			s0, ok0 := apiSelect(t, a, docs[0], cont)
			s1, ok1 := apiSelect(t, a, docs[1], cont)
			if ok0 && ok1 {
				delete(s1, 10) // the member whose number overflows float64 exists only in the UseNumber document
				if !apiSetEq(s0, s1) && !strings.Contains(a, "$.") {
					t.Errorf("REPRODUCED: %q on %s selects %v with float64 decoding and %v with UseNumber", a, cont, s0, s1)
					return
				}
			}
		}
	}
}

// C14: functions see every selected value once, in order; aggregates see all of them
func apiCheckFunctions(t *testing.T) {
	var calls []string
	cfg := Config{}
	cfg.SetFilterFunction("rec", func(v interface{}) (interface{}, error) { calls = append(calls, "rec:"+apiSnapshot(v)); return v, nil })
	cfg.SetFilterFunction("inc", func(v interface{}) (interface{}, error) {
		calls = append(calls, "inc:"+apiSnapshot(v))
		if f, ok := v.(float64); ok {
			return f + 1, nil
		}
		return nil, fmt.Errorf("nan")
	})
	cfg.SetAggregateFunction("agg", func(p []interface{}) (interface{}, error) {
		calls = append(calls, "agg:"+apiSnapshot(p))
		return float64(len(p)), nil
	})
	cfg.SetAggregateFunction("aggfail", func(p []interface{}) (interface{}, error) {
		calls = append(calls, "aggfail:"+apiSnapshot(p))
		return nil, fmt.Errorf("x")
	})
	cfg.SetAggregateFunction("list", func(p []interface{}) (interface{}, error) {
		calls = append(calls, "list:"+apiSnapshot(p))
		return append([]interface{}{}, p...), nil
	})
	docs := []string{`{"a":[[1,2],[3]],"b":[4,5],"c":{"x":1,"y":2},"d":7}`, `{"a":null,"b":1,"c":"x","d":false}`, `[null,0,"",false,[],{}]`, `[1,2,3]`, `[[1],[2,3]]`, `{"a":1,"b":2}`, `{"a":[[1,2]]}`, `[[1,2]]`, `{"c":{"x":[7,8]}}`, `{"p":{"q":{"r":{"s":[[1,2],[3]]}}}}`}
	prefixes := []string{`$.a`, `$.a.*`, `$.a[0]`, `$.a[*]`, `$.b`, `$.b[*]`, `$.c`, `$.c.*`, `$..x`, `$.*`, `$[*]`, `$[0]`, `$`, `$['a','b']`, `$[0,1]`, `$[?(@)]`, `$.d`, `$.zz`,
		// the leading `$` omitted
		`a`, `a.*`, `a[0]`, `a[*]`, `a[*][0]`, `b[*]`, `c.*`, `*`, `[*]`, `[0]`, `['a','b']`, `[0,1]`, `[?(@)]`, `[0][*]`, `a[0:1]`,
		`$['a','b','c']`, `$['a','zz']`, `$['d','a']`, `$[0,1,2,3]`, `$[0:]`, `$[::-1]`,
		// a multi-valued step followed by further steps, recursive descent before each bracket form
		`$.a[*][0]`, `$.a[0][*]`, `$[*][0]`, `$.*[0]`, `$..['a','b']`, `$..['x','y']`, `$..[0]`, `$..[0,1]`, `$..*`, `$..[?(@)]`, `$.c['x','y']`, `$['c','zz'].x`,
		// a function in the middle of the path
		`$.a.rec()[*]`, `$.a.rec()[0]`, `$.b.rec()[*]`, `$.c.rec().*`, `$.a[*].rec()[0]`, `a.rec()[*]`, `$.p.q.r.s[*]`, `$.p.q.r.s`, `$.p.q.r.*`, `p.q.r.s[*]`}
	// the list an aggregate is handed is its own: an aggregate that keeps (or returns) its argument sees it unchanged after
	// later evaluations, in one call (a filter evaluating the function per member) and across calls
	{
		var kept [][]interface{}
		var snaps []string
		kcfg := Config{}
		kcfg.SetAggregateFunction("keep", func(p []interface{}) (interface{}, error) {
			kept = append(kept, p)
			snaps = append(snaps, apiSnapshot(p))
			return p, nil
		})
		seq := []struct{ path, doc string }{
			{`$.a.keep()`, `{"a":{"x":1}}`}, {`$.b`, `{"b":"other"}`}, {`$.a.keep()`, `{"a":"s"}`}, {`$[?(@.a.keep())]`, `[{"a":"first"},{"a":"second"},{"a":{"k":3}}]`},
			{`$.a[*].keep()`, `{"a":[1,2,3]}`}, {`$.*`, `{"p":9,"q":8,"r":7}`}, {`$.a.keep()`, `{"a":[4,5]}`}, {`$..a.keep()`, `{"a":{"a":6}}`}, {`$[*]`, `[10,11,12,13]`},
		}
		var firsts []interface{}
		for _, st := range seq {
			apiCount()
			res, err := Retrieve(st.path, apiDecode(st.doc), kcfg)
			if err == nil && strings.Contains(st.path, "keep") && len(res) > 0 {
				firsts = append(firsts, res[0])
			}
		}
		for i := range kept {
			if got := apiSnapshot(kept[i]); got != snaps[i] {
				t.Errorf("REPRODUCED: the argument list of aggregate call %d was %s when the function ran and reads %s after later evaluations", i, snaps[i], got)
				return
			}
		}
		_ = firsts
	}
	// a function inside a filter operand is called once per member of the filtered container, in order - equal members
	// included
	for _, fc := range []struct{ path, doc string }{
		{`$[?(@.rec() > 1)]`, `[3,3,5,3,"x","x",true,true,null,null]`}, {`$[?(@.rec())]`, `["a","b","b","c","c","c"]`}, {`$..[?(@.rec() == 1)]`, `[1,1,[1,1],{"a":1,"b":1}]`},
		{`$[?(@.rec() == $[0])]`, `[2,2,2]`}, {`$[?(@.a.rec() > 0)]`, `[{"a":1},{"a":1},{"a":2}]`}, {`$.*[?(@.rec() < 9)]`, `{"p":[1,1],"q":[1,1]}`},
	} {
		doc := apiDecode(fc.doc)
		calls = nil
		apiCount()
		_, _ = Retrieve(fc.path, doc, cfg)
		// the members the operand is evaluated on: every member of every container the filter is applied to
		var want []string
		var containers []interface{}
		switch {
		case strings.HasPrefix(fc.path, `$..`):
			refContainers(doc, &containers)
		case strings.HasPrefix(fc.path, `$.*`):
			containers = refWild(doc)
		default:
			containers = []interface{}{doc}
		}
		for _, c := range containers {
			for _, m := range refWild(c) {
				if strings.Contains(fc.path, `@.a.`) {
					if mm, ok := m.(map[string]interface{}); ok {
						if v, ok := mm["a"]; ok {
							want = append(want, "rec:"+apiSnapshot(v))
						}
					}
					continue
				}
				want = append(want, "rec:"+apiSnapshot(m))
			}
		}
		if strings.Join(calls, "|") != strings.Join(want, "|") {
			t.Errorf("REPRODUCED: %q on %s: the function in the filter operand was called with %v, the members are %v", fc.path, fc.doc, calls, want)
			return
		}
	}
	for _, ds := range docs {
		for _, pre := range prefixes {
			apiCount()
			base, berr := Retrieve(pre, apiDecode(ds), cfg)
			// filter function: once per selected value, in result order
			calls = nil
			apiCount()
			res, err := Retrieve(pre+".rec()", apiDecode(ds), cfg)
			var want []string
			for _, v := range base {
				want = append(want, "rec:"+apiSnapshot(v))
			}
			if berr == nil && (err != nil || strings.Join(calls, "|") != strings.Join(want, "|") || apiSnapshot(res) != apiSnapshot(base)) {
				t.Errorf("REPRODUCED: %q on %s: filter function calls %v result %s err %v; the path before it selects %s", pre+".rec()", ds, calls, apiSnapshot(res), err, apiSnapshot(base))
				return
			}
			if berr != nil && len(calls) != 0 {
				t.Errorf("REPRODUCED: %q on %s: function called %v although the path selects nothing", pre+".rec()", ds, calls)
				return
			}
			// aggregate: exactly one call with all values, or with the elements of the single array of a single-valued path
			calls = nil
			apiCount()
			res, err = Retrieve(pre+".agg()", apiDecode(ds), cfg)
			if berr == nil {
				single := !strings.ContainsAny(pre, "*?,:") && !strings.Contains(pre, "..")
				arg := base
				if arr, ok := base[0].([]interface{}); ok && single && len(base) == 1 {
					arg = arr
				}
				if err != nil || len(calls) != 1 || calls[0] != "agg:"+apiSnapshot(arg) || len(res) != 1 || res[0] != float64(len(arg)) {
					t.Errorf("REPRODUCED: %q on %s: aggregate calls %v result %s err %v; expected one call with %s", pre+".agg()", ds, calls, apiSnapshot(res), err, apiSnapshot(arg))
					return
				}
			}
			// chained: left to right
			calls = nil
			apiCount()
			res, err = Retrieve(pre+".inc().inc()", apiDecode(ds), cfg)
			allNum := berr == nil
			for _, v := range base {
				if _, ok := v.(float64); !ok {
					allNum = false
				}
			}
			if allNum {
				var want []string
				for _, v := range base {
					want = append(want, "inc:"+apiSnapshot(v))
				}
				for _, v := range base {
					want = append(want, "inc:"+apiSnapshot(v.(float64)+1))
				}
				wantCalls := append([]string{}, want...)
				sort.Strings(wantCalls)
				gotCalls := append([]string{}, calls...)
				sort.Strings(gotCalls)
				bad := err != nil || len(res) != len(base) || strings.Join(gotCalls, "|") != strings.Join(wantCalls, "|")
				for i := range base {
					if !bad && res[i] != base[i].(float64)+2 {
						bad = true
					}
				}
				if bad {
					t.Errorf("REPRODUCED: %q on %s: chained filter functions: calls %v result %s err %v; the path before selects %s", pre+".inc().inc()", ds, calls, apiSnapshot(res), err, apiSnapshot(base))
					return
				}
			}
			// chained aggregates: `pre.list()` is a single value (the array `list` returned), so the second aggregate is handed
			// that array's elements - whatever the steps before the first aggregate were; a filter function in between hands it on unchanged
			if berr == nil {
				single := !strings.ContainsAny(pre, "*?,:") && !strings.Contains(pre, "..")
				arg := base
				if arr, ok := base[0].([]interface{}); ok && single && len(base) == 1 {
					arg = arr
				}
				for _, ch := range []struct {
					tail string
					want []string
				}{
					{".list().agg()", []string{"list:" + apiSnapshot(arg), "agg:" + apiSnapshot(arg)}},
					{".list().rec().agg()", []string{"list:" + apiSnapshot(arg), "rec:" + apiSnapshot(arg), "agg:" + apiSnapshot(arg)}},
					{".list().list().agg()", []string{"list:" + apiSnapshot(arg), "list:" + apiSnapshot(arg), "agg:" + apiSnapshot(arg)}},
				} {
					calls = nil
					apiCount()
					res, err = Retrieve(pre+ch.tail, apiDecode(ds), cfg)
					if err != nil || strings.Join(calls, "|") != strings.Join(ch.want, "|") || len(res) != 1 || res[0] != float64(len(arg)) {
						t.Errorf("REPRODUCED: %q on %s: chained aggregates: calls %v result %s err %v; expected the calls %v", pre+ch.tail, ds, calls, apiSnapshot(res), err, ch.want)
						return
					}
				}
			}
			// all functions failing => ErrorFunctionFailed
			calls = nil
			apiCount()
			_, err = Retrieve(pre+".aggfail()", apiDecode(ds), cfg)
			if berr == nil {
				if _, ok := err.(ErrorFunctionFailed); !ok {
					t.Errorf("REPRODUCED: %q on %s: expected ErrorFunctionFailed, got %T %v", pre+".aggfail()", ds, err, err)
					return
				}
			}
		}
	}
}

// C15: single-valued paths report the first failing step with the right kind
func apiCheckErrors(t *testing.T) {
	type step struct {
		text string
		name string
		idx  int
		isIx bool
	}
	docs := []string{`{"a":{"b":[1,{"c":2}]},"n":null,"s":"x"}`, `[{"a":1},[2,[3]]]`, `{}`, `[]`, `1`, `null`}
	pool := []step{{".a", "a", 0, false}, {".b", "b", 0, false}, {".c", "c", 0, false}, {".zz", "zz", 0, false}, {"[0]", "", 0, true}, {"[1]", "", 1, true}, {"[5]", "", 5, true}, {".n", "n", 0, false}, {".s", "s", 0, false}}
	var rec func(prefix []step, depth int)
	rec = func(prefix []step, depth int) {
		if t.Failed() {
			return
		}
		if depth > 0 {
			path := "$"
			for _, s := range prefix {
				path += s.text
			}
			for _, ds := range docs {
				var cur interface{} = apiDecode(ds)
				wantType, wantText := "", ""
				for _, s := range prefix {
					if s.isIx {
						l, ok := cur.([]interface{})
						if !ok {
							wantType, wantText = "ErrorTypeUnmatched", s.text
							break
						}
						if s.idx >= len(l) {
							wantType, wantText = "ErrorMemberNotExist", s.text
							break
						}
						cur = l[s.idx]
					} else {
						m, ok := cur.(map[string]interface{})
						if !ok {
							wantType, wantText = "ErrorTypeUnmatched", s.text
							break
						}
						v, ok := m[s.name]
						if !ok {
							wantType, wantText = "ErrorMemberNotExist", s.text
							break
						}
						cur = v
					}
				}
				apiCount()
				_, err := Retrieve(path, apiDecode(ds))
				got := ""
				if err != nil {
					got = fmt.Sprintf("%T", err)
					got = got[strings.LastIndex(got, ".")+1:]
				}
				if got != wantType || (err != nil && !strings.Contains(err.Error(), "path="+wantText+")")) {
					t.Errorf("REPRODUCED: %q on %s: got error %q (%v), expected %s at step %q", path, ds, got, err, wantType, wantText)
					return
				}
			}
		}
		if depth == 3 {
			return
		}
		for _, s := range pool {
			rec(append(append([]step{}, prefix...), s), depth+1)
		}
	}
	rec(nil, 0)
	if t.Failed() {
		return
	}
	// several failing branches, generically: over the paths of the C01 fragment, when nothing is selected the step the error
	// names is the one at which the last reached values run out (no value reaches a later step, some value reaches this one)
	{
		pool := refPool()
		docs := append(refDocs(), `[{"x":{"a":{}}},{}]`, `[{"a":{"a":{}}},{},{"b":[]}]`, `{"a":{},"b":{"a":{"b":{}}},"c":[{},[]]}`)
		var walk func(prefix []refStep, depth int)
		walk = func(prefix []refStep, depth int) {
			if t.Failed() {
				return
			}
			if depth > 0 {
				path := refRender(prefix)
				for _, ds := range docs {
					doc := refDecode(ds, false)
					k := -1
					for n := 1; n <= len(prefix); n++ {
						if len(refEval(prefix[:n], doc)) == 0 {
							k = n - 1
							break
						}
					}
					if k < 0 {
						continue
					}
					apiCount()
					_, err := Retrieve(path, doc)
					if err == nil {
						continue // C01's harness reports this
					}
					st := prefix[k]
					texts := []string{st.text}
					if st.rec {
						texts = append(texts, "..", strings.TrimPrefix(st.text, ".."))
					}
					ok := false
					for _, tx := range texts {
						if strings.Contains(err.Error(), "path="+tx+")") {
							ok = true
						}
					}
					if !ok {
						t.Errorf("REPRODUCED: %q on %s: the values run out at step %d (%s) but the error names another step: %v", path, ds, k+1, st.text, err)
						return
					}
				}
			}
			if depth == 3 {
				return
			}
			for si, st := range pool {
				if depth == 2 && (st.rec || (!apiThorough && si%2 == 1)) {
					continue
				}
				walk(append(append([]refStep{}, prefix...), st), depth+1)
			}
		}
		walk(nil, 0)
		if t.Failed() {
			return
		}
	}
	// several failing branches: the reported step is one reached furthest along the path; there a missing member is
	// preferred over a type mismatch
	multi := []struct{ path, doc, want string }{
		{`$.é.b`, `{"é":{}}`, `member did not exist (path=.b)`},
		{`$.日本['b']`, `{"日本":{}}`, `member did not exist (path=['b'])`},
		{`$.a['ü']`, `{"a":{}}`, `member did not exist (path=['ü'])`},
		{`$['é'][0]`, `{"é":{}}`, `type unmatched (expected=array, found=map[string]interface {}, path=[0])`},
		{`$.é.ü.ö`, `{"é":{"ü":1}}`, `type unmatched (expected=object, found=float64, path=.ö)`},
		{`$['é','ü'].x`, `{"a":1}`, `member did not exist (path=['é','ü'])`},
		{`$..['日'].x`, `{"日":1}`, `type unmatched (expected=object, found=float64, path=.x)`},
		{`$[*][*,*].name.first`, `[{"x":{"name":{}}},{}]`, `member did not exist (path=.first)`},
		{`$[*]['a',*].name.first`, `[{"a":{"name":{}}},{}]`, `member did not exist (path=.first)`},
		{`$..[*,*].name.first`, `[[{"name":{}}],[[]]]`, `member did not exist (path=.first)`},
		{`$.*[*,*]`, `[{}]`, `member did not exist (path=[*,*])`},
		{`$['a',*]`, `{}`, `member did not exist (path=['a',*])`},
		{`$..a.b`, `{"c":{"a":1}}`, `type unmatched (expected=object, found=float64, path=.b)`},
		{`$..x[0]`, `{"k":{"x":"s"}}`, `type unmatched (expected=array, found=string, path=[0])`},
		{`$.r..a.b.c`, `{"r":{"p":{"q":{"a":true}}}}`, `type unmatched (expected=object, found=bool, path=.b)`},
		{`$..ab.b`, `{"c":{"ab":1}}`, `type unmatched (expected=object, found=float64, path=.b)`},
		{`$.*.a.b`, `{"p":{"a":1},"q":{"z":1}}`, `type unmatched (expected=object, found=float64, path=.b)`},
		{`$.*.a.b`, `{"p":{"a":{"c":1}},"q":{"a":1}}`, `member did not exist (path=.b)`},
		{`$.*.a.b`, `{"p":{"a":1},"q":{"a":{"c":1}}}`, `member did not exist (path=.b)`},
		{`$[*].a.b`, `[{"z":1},{"a":{"c":1}},{"a":2}]`, `member did not exist (path=.b)`},
		{`$['p','q'].a.b`, `{"p":{"a":1},"q":{"a":{}}}`, `member did not exist (path=.b)`},
		{`$[0,1].a.b`, `[{"a":"s"},{"a":{}}]`, `member did not exist (path=.b)`},
		{`$[?(@.a)].a.b`, `[{"a":1},{"a":{"c":1}}]`, `member did not exist (path=.b)`},
		{`$..a.b.c`, `{"x":{"a":{"b":1}},"y":{"a":{"z":1}}}`, `type unmatched (expected=object, found=float64, path=.c)`},
	}
	for _, m := range multi {
		apiCount()
		_, err := Retrieve(m.path, apiDecode(m.doc))
		if err == nil || err.Error() != m.want {
			t.Errorf("REPRODUCED: %q on %s: got %v, expected %q", m.path, m.doc, err, m.want)
			return
		}
	}
	// the (expected, found) pair of a type mismatch, for every step kind over every kind of value
	kinds := []struct{ step, text, expected string }{
		{".x", ".x", "object"}, {"['x']", "['x']", "object"}, {"['x','y']", "['x','y']", "object"}, {".*", ".*", "object/array"}, {"..x", "..", "object/array"},
		{"[?(@.x)]", "[?(@.x)]", "object/array"}, {"[0]", "[0]", "array"}, {"[0:1]", "[0:1]", "array"}, {"[0,1]", "[0,1]", "array"},
	}
	vals := []struct{ doc, found string }{
		{`{"v":null}`, "null"}, {`{"v":1}`, "float64"}, {`{"v":"s"}`, "string"}, {`{"v":true}`, "bool"}, {`{"v":0}`, "float64"}, {`{"v":""}`, "string"}, {`{"v":false}`, "bool"}, {`{"v":-0.0}`, "float64"},
		{`{"v":{}}`, "map[string]interface {}"}, {`{"v":[]}`, "[]interface {}"},
	}
	for _, k := range kinds {
		for _, v := range vals {
			if (k.expected != "array" && v.found == "map[string]interface {}") || (k.expected != "object" && v.found == "[]interface {}") {
				continue
			}
			for _, tail := range []string{"", ".z"} {
				path := "$.v" + k.step + tail
				apiCount()
				_, err := Retrieve(path, apiDecode(v.doc))
				want := fmt.Sprintf("type unmatched (expected=%s, found=%s, path=%s)", k.expected, v.found, k.text)
				if err == nil || err.Error() != want {
					t.Errorf("REPRODUCED: %q on %s: got %v, expected %q", path, v.doc, err, want)
					return
				}
			}
		}
	}
}

// C16: every object member is addressable; dot and bracket notations are equivalent
func apiJSONEscape(k string) string {
	var b strings.Builder
	enc := json.NewEncoder(&b)
	enc.SetEscapeHTML(false)
	_ = enc.Encode(k)
	out := strings.TrimRight(b.String(), "\n")
	return out[1 : len(out)-1]
}

func apiSingleQuoteEscape(k string) string {
	j := apiJSONEscape(k)
	var b strings.Builder
	for i := 0; i < len(j); i++ {
		switch {
		case j[i] == '\\' && i+1 < len(j) && j[i+1] == '"':
			b.WriteByte('"')
			i++
		case j[i] == '\\' && i+1 < len(j):
			b.WriteByte(j[i])
			b.WriteByte(j[i+1])
			i++
		case j[i] == '\'':
			b.WriteString("\\'")
		default:
			b.WriteByte(j[i])
		}
	}
	return b.String()
}

func apiDotEscape(k string) (string, bool) {
	if k == "" {
		return "", false
	}
	var b strings.Builder
	for _, r := range k {
		if r < 0x20 || r == 0x7f {
			return "", false
		}
		if (r >= ' ' && r <= ',') || r == '.' || r == '/' || (r >= ':' && r <= '@') || (r >= '[' && r <= '^') || r == '`' || (r >= '{' && r <= '~') {
			b.WriteByte('\\')
		}
		b.WriteRune(r)
	}
	return b.String(), true
}

func apiCheckKeys(t *testing.T) {
	keys := []string{"", "a", "b", "ab", "'", "\"", "\\", "a'b", "a\"b", "a\\b", "\\n", "\n", "\\u0041", "A", "\\ud800", "\\'", "'\\", "\\\\", "\\\"",
		"\u00e9", "\u65e5\u672c", "\U0001F600", "\t", "\r", "\b", "\f", "\x00", "\x1f", "\x7f", " ", "a b", "a.b", "a,b", "$", "@", "*", "[0]", "0", "-1", "a-b", "a_b", "/", "a/b",
		"\u00e9.b", "a \U0001D11E", "\u65e5\u672c.\u8a9e", "\u00e9 b", "\u00df-\u00fc.\u00f6", "\u00e9'", "\"\u00e9",
		"(", ")", "()", "f()", "?", "!", "=", "<", ">", "&", "|", "~", "`", "{", "}", "^", "[", "]", ":", ";", "#", "%", "+", "\u2028", "\ufffd", "e\u0301", "\u00a0"}
	doc := map[string]interface{}{}
	for i, k := range keys {
		doc[k] = float64(i)
	}
	outer := map[string]interface{}{"w": doc}
	list := []interface{}{doc}
	check := func(path string, src interface{}, k string, want float64) bool {
		apiCount()
		res, err := Retrieve(path, src)
		if err != nil || len(res) != 1 || res[0] != want {
			t.Errorf("REPRODUCED: key %q: %q returns %v, %v; direct lookup gives [%v]", k, path, res, err, want)
			return false
		}
		return true
	}
	for i, k := range keys {
		want := float64(i)
		sq := "['" + apiSingleQuoteEscape(k) + "']"
		dq := "[\"" + apiJSONEscape(k) + "\"]"
		spellings := []string{sq, dq}
		if d, ok := apiDotEscape(k); ok {
			spellings = append(spellings, "."+d)
		}
		for _, sp := range spellings {
			if !check("$"+sp, doc, k, want) || !check("$.w"+sp, outer, k, want) || !check("$.."+strings.TrimPrefix(sp, "."), outer, k, want) {
				return
			}
			if !strings.HasPrefix(sp, ".") || true {
				apiCount()
				res, err := Retrieve("$[?(@"+sp+" == "+fmt.Sprint(i)+")]", list)
				if err != nil || len(res) != 1 {
					t.Errorf("REPRODUCED: key %q inside a filter: %q returns %v, %v", k, "$[?(@"+sp+" == "+fmt.Sprint(i)+")]", res, err)
					return
				}
			}
		}
	}
}

// C01 / C08: an independent reference evaluator for a fragment of JSONPath (names, multi-names, wildcard, index,
// slice, union, recursive descent, existence and comparison filters), written from the step-by-step definition.
type refStep struct {
	text string
	rec  bool // recursive descent: the step applies to every container of the subtree, pre-order
	sel  func(v interface{}) []interface{}
}

func refKeys(m map[string]interface{}) []string {
	ks := make([]string, 0, len(m))
	for k := range m {
		ks = append(ks, k)
	}
	sort.Strings(ks)
	return ks
}

func refName(k string) func(interface{}) []interface{} {
	return func(v interface{}) []interface{} {
		if m, ok := v.(map[string]interface{}); ok {
			if x, ok := m[k]; ok {
				return []interface{}{x}
			}
		}
		return nil
	}
}

func refMulti(ks ...string) func(interface{}) []interface{} {
	return func(v interface{}) []interface{} {
		var out []interface{}
		for _, k := range ks {
			out = append(out, refName(k)(v)...)
		}
		return out
	}
}

func refWild(v interface{}) []interface{} {
	switch x := v.(type) {
	case map[string]interface{}:
		var out []interface{}
		for _, k := range refKeys(x) {
			out = append(out, x[k])
		}
		return out
	case []interface{}:
		return append([]interface{}{}, x...)
	}
	return nil
}

func refIndex(i int) func(interface{}) []interface{} {
	return func(v interface{}) []interface{} {
		if l, ok := v.([]interface{}); ok {
			j := i
			if j < 0 {
				j += len(l)
			}
			if j >= 0 && j < len(l) {
				return []interface{}{l[j]}
			}
		}
		return nil
	}
}

// refSlice: Python slice semantics, bounds given as pointers (nil = omitted)
func refSlice(lo, hi *int, step int) func(interface{}) []interface{} {
	return func(v interface{}) []interface{} {
		l, ok := v.([]interface{})
		if !ok || step == 0 {
			return nil
		}
		n := len(l)
		clamp := func(x, low, high int) int {
			if x < low {
				return low
			}
			if x > high {
				return high
			}
			return x
		}
		var out []interface{}
		if step > 0 {
			a, b := 0, n
			if lo != nil {
				a = *lo
				if a < 0 {
					a += n
				}
				a = clamp(a, 0, n)
			}
			if hi != nil {
				b = *hi
				if b < 0 {
					b += n
				}
				b = clamp(b, 0, n)
			}
			for i := a; i < b; i += step {
				out = append(out, l[i])
			}
		} else {
			a, b := n-1, -1
			if lo != nil {
				a = *lo
				if a < 0 {
					a += n
				}
				a = clamp(a, -1, n-1)
			}
			if hi != nil {
				b = *hi
				if b < 0 {
					b += n
				}
				b = clamp(b, -1, n-1)
			}
			for i := a; i > b; i += step {
				out = append(out, l[i])
			}
		}
		return out
	}
}

func refConcat(fs ...func(interface{}) []interface{}) func(interface{}) []interface{} {
	return func(v interface{}) []interface{} {
		var out []interface{}
		for _, f := range fs {
			out = append(out, f(v)...)
		}
		return out
	}
}

func refFilter(pred func(member interface{}) bool) func(interface{}) []interface{} {
	return func(v interface{}) []interface{} {
		var out []interface{}
		for _, m := range refWild(v) {
			if pred(m) {
				out = append(out, m)
			}
		}
		return out
	}
}

func refNum(v interface{}) (float64, bool) {
	switch x := v.(type) {
	case float64:
		return x, true
	case json.Number:
		f, err := x.Float64()
		return f, err == nil
	}
	return 0, false
}

// containers of the subtree of v, pre-order (object members in key order)
func refContainers(v interface{}, out *[]interface{}) {
	switch x := v.(type) {
	case map[string]interface{}:
		*out = append(*out, v)
		for _, k := range refKeys(x) {
			refContainers(x[k], out)
		}
	case []interface{}:
		*out = append(*out, v)
		for _, e := range x {
			refContainers(e, out)
		}
	}
}

func refEval(steps []refStep, doc interface{}) []interface{} {
	cur := []interface{}{doc}
	for _, st := range steps {
		var next []interface{}
		for _, v := range cur {
			if st.rec {
				var cs []interface{}
				refContainers(v, &cs)
				for _, c := range cs {
					next = append(next, st.sel(c)...)
				}
			} else {
				next = append(next, st.sel(v)...)
			}
		}
		cur = next
	}
	return cur
}

func refPool() []refStep {
	ip := func(i int) *int { return &i }
	hasKey := func(k string) func(interface{}) bool {
		return func(m interface{}) bool { return len(refName(k)(m)) == 1 }
	}
	cmp := func(k string, f func(float64) bool) func(interface{}) bool {
		return func(m interface{}) bool {
			vs := refName(k)(m)
			if len(vs) != 1 {
				return false
			}
			x, ok := refNum(vs[0])
			return ok && f(x)
		}
	}
	pool := []refStep{
		{text: ".a", sel: refName("a")}, {text: ".b", sel: refName("b")}, {text: "['c']", sel: refName("c")},
		{text: "['a','b']", sel: refMulti("a", "b")}, {text: "['b','a','b']", sel: refMulti("b", "a", "b")}, {text: "['a','b','c','a','b']", sel: refMulti("a", "b", "c", "a", "b")},
		{text: ".*", sel: refWild}, {text: "[*]", sel: refWild}, {text: "[*,*]", sel: refConcat(refWild, refWild)},
		{text: "[0]", sel: refIndex(0)}, {text: "[1]", sel: refIndex(1)}, {text: "[-1]", sel: refIndex(-1)},
		{text: "[0:2]", sel: refSlice(ip(0), ip(2), 1)}, {text: "[1:]", sel: refSlice(ip(1), nil, 1)}, {text: "[::-1]", sel: refSlice(nil, nil, -1)}, {text: "[-2:]", sel: refSlice(ip(-2), nil, 1)},
		{text: "[1,0]", sel: refConcat(refIndex(1), refIndex(0))}, {text: "[0,0]", sel: refConcat(refIndex(0), refIndex(0))}, {text: "[0,1:3]", sel: refConcat(refIndex(0), refSlice(ip(1), ip(3), 1))}, {text: "[0,0,1,1,0]", sel: refConcat(refIndex(0), refIndex(0), refIndex(1), refIndex(1), refIndex(0))},
		{text: "[?(@.a)]", sel: refFilter(hasKey("a"))}, {text: "[?(@.b == 2)]", sel: refFilter(cmp("b", func(x float64) bool { return x == 2 }))}, {text: "[?(@.a > 1)]", sel: refFilter(cmp("a", func(x float64) bool { return x > 1 }))},
		{text: "[?(!@.a)]", sel: refFilter(func(m interface{}) bool { return !hasKey("a")(m) })},
		{text: "[?(1 == 1)]", sel: refFilter(func(m interface{}) bool { return true })},
		{text: "[-3::2]", sel: refSlice(ip(-3), nil, 2)},
		{text: "[0,2,1,3]", sel: refConcat(refIndex(0), refIndex(2), refIndex(1), refIndex(3))}, {text: "[0,0,2]", sel: refConcat(refIndex(0), refIndex(0), refIndex(2))},
	}
	// recursive descent before each bracket form and a name
	for _, st := range []refStep{pool[0], pool[3], pool[5], pool[7], pool[10], pool[14], pool[17]} {
		t := st.text
		if strings.HasPrefix(t, ".") {
			t = t[1:]
		}
		pool = append(pool, refStep{text: ".." + t, rec: true, sel: st.sel})
	}
	return pool
}

func refDocs() []string {
	return []string{
		`{"a":{"a":1,"b":2,"c":[1,2,3]},"b":[{"a":1,"b":2},{"a":2},{"b":2,"c":{"a":3}}],"c":{"b":{"a":[5,6]}}}`,
		`[{"a":[{"a":1},{"b":2}],"b":2},{"a":2,"b":[1,[2,3]]},[{"a":3,"b":2},4],5]`,
		`{"b":{"a":2,"b":2},"a":[[1,2],[3]],"c":null}`,
		`[[1,2,3],[4,5],[],{"a":{"b":{"a":7}}}]`,
		`{}`, `[]`, `{"a":null}`, `[null,1,"s",true]`,
		`[{"a":1},{"a":2},{"a":3},{"a":4},{"a":5},{"b":2}]`,
		`{"p":{"a":1,"y":2},"q":{"a":3,"y":4},"r":{"a":5,"b":2}}`,
		`{"a":[[{"a":1}],{"a":2}],"b":[[[{"a":3,"b":2}]]]}`,
		`[[{"a":1},{"a":2},[{"a":3},{"b":2,"a":[4]}]],{"b":[{"a":0},[{"a":5},{"a":6}],{"a":7}]}]`,
		`{"a":[10,20,30,40,50],"b":{"p":{"a":1},"q":{"a":2},"r":{"b":2},"s":{"a":4}}}`,
		// names that are prefixes of one another (order of the key sort), and members with several keys below an object filter
		`{"a":{"a":1,"ab":2,"abc":[1],"b":2},"ab":{"a":2,"b":2,"c":0},"abc":{"a":3,"c":1},"b":{"a":4,"aa":1},"aa":5}`,
	}
}

// documents assembled in Go in which one container is reachable twice (no cycle): results depend on the value of the
// document only, never on how it was built
func refSharedDocs() ([]interface{}, []string) {
	shared := map[string]interface{}{"a": 1.0, "b": []interface{}{"x", "y"}}
	d1 := map[string]interface{}{"a": map[string]interface{}{"c": shared}, "b": shared}
	items := []interface{}{map[string]interface{}{"a": 1.0}, map[string]interface{}{"a": 2.0}, map[string]interface{}{"a": 3.0}}
	d2 := map[string]interface{}{"a": items, "b": items[:1], "c": items[1:]}
	d3 := []interface{}{shared, shared, []interface{}{shared}}
	return []interface{}{d1, d2, d3}, []string{"an object whose members share one sub-object", "an object whose members are views of one array", "an array holding the same object three times"}
}

func refRender(steps []refStep) string {
	p := "$"
	for _, s := range steps {
		p += s.text
	}
	return p
}

func refDecode(ds string, useNumber bool) interface{} {
	dec := json.NewDecoder(strings.NewReader(ds))
	if useNumber {
		dec.UseNumber()
	}
	var d interface{}
	_ = dec.Decode(&d)
	return d
}

// C01: every path of the fragment up to depth 3 on every document against the reference evaluator
func apiCheckSelect(t *testing.T) {
	pool := refPool()
	var rec func(prefix []refStep, depth int)
	rec = func(prefix []refStep, depth int) {
		if t.Failed() {
			return
		}
		if depth > 0 {
			path := refRender(prefix)
			for _, ds := range refDocs() {
				for _, un := range []bool{false, true} {
					doc := refDecode(ds, un)
					want := refEval(prefix, doc)
					apiCount()
					got, err := Retrieve(path, doc)
					if len(want) == 0 {
						if err == nil {
							t.Errorf("REPRODUCED: %q on %s: the definition selects nothing but Retrieve returned %s", path, ds, apiSnapshot(got))
							return
						}
						continue
					}
					if err != nil || apiSnapshot(got) != apiSnapshot(want) {
						t.Errorf("REPRODUCED: %q on %s (UseNumber=%v): Retrieve gives %s, %v; the step-by-step definition gives %s", path, ds, un, apiSnapshot(got), err, apiSnapshot(want))
						return
					}
				}
			}
			shared, names := refSharedDocs()
			for i, doc := range shared {
				want := refEval(prefix, doc)
				apiCount()
				got, err := Retrieve(path, doc)
				if (len(want) == 0) != (err != nil) || (err == nil && apiSnapshot(got) != apiSnapshot(want)) {
					t.Errorf("REPRODUCED: %q on %s (%s): Retrieve gives %s, %v; the step-by-step definition gives %s", path, names[i], apiSnapshot(doc), apiSnapshot(got), err, apiSnapshot(want))
					return
				}
			}
		}
		if depth == 3 && !apiThorough || depth == 4 {
			return
		}
		for si, s := range pool {
			if depth == 2 && s.rec {
				continue // keep the third level to plain steps
			}
			if depth == 3 && (si%3 != 1 || s.rec) {
				continue // thorough: a fourth level over a third of the plain steps
			}
			rec(append(append([]refStep{}, prefix...), s), depth+1)
		}
	}
	rec(nil, 0)
}

// refBigDocs: documents with hundreds of containers (work lists, buffers and pools beyond their initial sizes)
func refBigDocs() []interface{} {
	var wide []interface{}
	for i := 0; i < 140; i++ {
		wide = append(wide, map[string]interface{}{"a": map[string]interface{}{"b": float64(i), "a": []interface{}{float64(i), float64(-i)}}, "b": float64(i % 3)})
	}
	var deep interface{} = map[string]interface{}{"a": 0.0, "b": 2.0}
	for i := 1; i < 40; i++ {
		deep = map[string]interface{}{"a": deep, "b": []interface{}{float64(i), map[string]interface{}{"a": float64(i)}}, "c": float64(i)}
	}
	obj := map[string]interface{}{}
	for i := 0; i < 150; i++ {
		obj[fmt.Sprintf("k%03d", i)] = map[string]interface{}{"a": float64(i), "b": []interface{}{float64(i)}}
	}
	return []interface{}{wide, deep, obj}
}

// apiCheckBigDocs: one- and two-step paths of the C01 fragment on the large documents against the reference evaluator
func apiCheckBigDocs(t *testing.T) {
	pool := refPool()
	var paths [][]refStep
	for _, a := range pool {
		paths = append(paths, []refStep{a})
		for bi, b := range pool {
			if ((a.rec || b.rec) && bi%3 == 0) || apiThorough {
				paths = append(paths, []refStep{a, b})
			}
		}
	}
	for di, doc := range refBigDocs() {
		for _, steps := range paths {
			path := refRender(steps)
			want := refEval(steps, doc)
			apiCount()
			got, err := Retrieve(path, doc)
			if (len(want) == 0) != (err != nil) || (err == nil && apiSnapshot(got) != apiSnapshot(want)) {
				g, w := apiSnapshot(got), apiSnapshot(want)
				if len(g) > 300 {
					g = g[:300] + "..."
				}
				if len(w) > 300 {
					w = w[:300] + "..."
				}
				t.Errorf("REPRODUCED: %q on large document %d: Retrieve gives %s, %v; the step-by-step definition gives %s", path, di, g, err, w)
				return
			}
		}
	}
}

// C08: P followed by Q equals Q applied to each result of P (three retrievals, no oracle)
func apiCheckCompose(t *testing.T) {
	pool := refPool()
	// `..X` equals X applied to every container of the document, pre-order
	for _, ds := range refDocs() {
		doc := refDecode(ds, false)
		var containers []interface{}
		refContainers(doc, &containers)
		for _, st := range pool {
			if !st.rec {
				continue
			}
			x := strings.TrimPrefix(st.text, "..")
			if !strings.HasPrefix(x, "[") {
				x = "." + x
			}
			for _, tail := range []string{"", ".a", "[0]", ".*"} {
				apiCount()
				all, errAll := Retrieve("$"+st.text+tail, doc)
				var want []interface{}
				for _, c := range containers {
					apiCount()
					part, err := Retrieve("$"+x+tail, c)
					if err == nil {
						want = append(want, part...)
					}
				}
				if (len(want) == 0) != (errAll != nil) || (errAll == nil && apiSnapshot(all) != apiSnapshot(want)) {
					t.Errorf("REPRODUCED: %q on %s gives %s, %v; %q applied to every container in pre-order gives %s", "$"+st.text+tail, ds, apiSnapshot(all), errAll, "$"+x+tail, apiSnapshot(want))
					return
				}
			}
		}
	}
	// two steps: P = one step, Q = one step (every pair)
	for _, ds := range refDocs() {
		doc := refDecode(ds, false)
		for _, p1 := range pool {
			for _, q := range pool {
				whole := refRender([]refStep{p1, q})
				apiCount()
				all, errAll := Retrieve(whole, doc)
				apiCount()
				base, _ := Retrieve(refRender([]refStep{p1}), doc)
				var want []interface{}
				for _, v := range base {
					apiCount()
					part, err := Retrieve(refRender([]refStep{q}), v)
					if err == nil {
						want = append(want, part...)
					}
				}
				if (len(want) == 0) != (errAll != nil) || (errAll == nil && apiSnapshot(all) != apiSnapshot(want)) {
					t.Errorf("REPRODUCED: %q on %s gives %s, %v; %q applied to each result of %q gives %s", whole, ds, apiSnapshot(all), errAll, refRender([]refStep{q}), refRender([]refStep{p1}), apiSnapshot(want))
					return
				}
			}
		}
	}
	for _, ds := range refDocs() {
		doc := refDecode(ds, false)
		for _, p1 := range pool {
			for _, p2 := range pool {
				for qi, q := range pool {
					if qi%3 != 0 && !q.rec && !apiThorough {
						continue // the last step ranges over a third of the plain steps and every recursive one
					}
					if t.Failed() {
						return
					}
					for _, split := range []struct{ p, q []refStep }{{[]refStep{p1}, []refStep{p2, q}}, {[]refStep{p1, p2}, []refStep{q}}} {
						whole := refRender(append(append([]refStep{}, split.p...), split.q...))
						apiCount()
						all, errAll := Retrieve(whole, doc)
						apiCount()
						base, _ := Retrieve(refRender(split.p), doc)
						var want []interface{}
						for _, v := range base {
							apiCount()
							part, err := Retrieve(refRender(split.q), v)
							if err == nil {
								want = append(want, part...)
							}
						}
						if len(want) == 0 {
							if errAll == nil {
								t.Errorf("REPRODUCED: %q on %s returns %s although %q applied to each result of %q selects nothing", whole, ds, apiSnapshot(all), refRender(split.q), refRender(split.p))
								return
							}
							continue
						}
						if errAll != nil || apiSnapshot(all) != apiSnapshot(want) {
							t.Errorf("REPRODUCED: %q on %s gives %s, %v; %q applied to each result of %q gives %s", whole, ds, apiSnapshot(all), errAll, refRender(split.q), refRender(split.p), apiSnapshot(want))
							return
						}
					}
				}
			}
		}
	}
	// a filter function as the following step: it accepts every value (scalars and null too), so P.w() is w of each result of P
	wcfg := Config{}
	wcfg.SetFilterFunction("w", func(v interface{}) (interface{}, error) { return []interface{}{"w", v}, nil })
	for _, ds := range append(refDocs(), `[1,2,3]`, `{"a":[1,null,"s",{"a":2},[3]]}`, `[[1,2],[3,null,4]]`) {
		doc := refDecode(ds, false)
		for _, p1 := range pool {
			for _, p0 := range append([]refStep{{}}, pool[6], pool[0]) {
				steps := []refStep{p1}
				if p0.text != "" {
					steps = []refStep{p0, p1}
				}
				path := refRender(steps)
				apiCount()
				base, _ := Retrieve(path, doc)
				for _, fn := range []string{".w()", ".w().w()"} {
					var want []interface{}
					for _, v := range base {
						w := interface{}([]interface{}{"w", v})
						if fn == ".w().w()" {
							w = []interface{}{"w", w}
						}
						want = append(want, w)
					}
					apiCount()
					all, errAll := Retrieve(path+fn, doc, wcfg)
					if (len(want) == 0) != (errAll != nil) || (errAll == nil && apiSnapshot(all) != apiSnapshot(want)) {
						t.Errorf("REPRODUCED: %q on %s gives %s, %v; the function applied to each result of %q gives %s", path+fn, ds, apiSnapshot(all), errAll, path, apiSnapshot(want))
						return
					}
				}
			}
		}
	}
}

// C02: Parse is total
func apiSyntaxErrOK(err error) bool {
	switch err.(type) {
	case ErrorInvalidSyntax, ErrorInvalidArgument, ErrorFunctionNotFound, ErrorNotSupported:
		return true
	}
	return false
}

func apiCheckParse(t *testing.T, path string, cfgs ...Config) {
	defer func() {
		if r := recover(); r != nil {
			t.Errorf("REPRODUCED: Parse(%q) panicked: %v", path, r)
		}
	}()
	apiCount()
	f, err := Parse(path, cfgs...)
	switch {
	case f == nil && err == nil:
		t.Errorf("REPRODUCED: Parse(%q) returned (nil, nil)", path)
	case f != nil && err != nil:
		t.Errorf("REPRODUCED: Parse(%q) returned a function and the error %v", path, err)
	case err != nil && !apiSyntaxErrOK(err):
		t.Errorf("REPRODUCED: Parse(%q) returned an error of type %T: %v", path, err, err)
	}
}

func apiParseCorpus() ([]string, Config) {
	operands := []string{`1`, `-1.5e3`, `'s'`, `"s"`, `true`, `null`, `@.a`, `$.a`, `@`, `$`, `@.a.f()`, `$..a`, `@.*`, `@.a.g()`, `@.g().g()`, `@.a[0]`, `$.a[0:1]`, `@['a','b']`, `1e999`, `0x1`, `+1`}
	ops := []string{`==`, `!=`, `<`, `<=`, `>`, `>=`, `=~`}
	cfg := apiConfig(false)
	cfg.SetFilterFunction("f", func(v interface{}) (interface{}, error) { return v, nil })
	cfg.SetAggregateFunction("g", func(v []interface{}) (interface{}, error) { return v, nil })
	var paths []string
	for _, a := range operands {
		paths = append(paths, `$[?(`+a+`)]`, `$[?(!`+a+`)]`)
		for _, o := range ops {
			for _, b := range operands {
				paths = append(paths, `$[?(`+a+` `+o+` `+b+`)]`)
			}
			paths = append(paths, `$[?(`+a+` `+o+` /re/)]`, `$[?(`+a+` `+o+` /(/)]`)
		}
	}
	paths = append(paths, apiPaths()...)
	paths = append(paths, ``, ` `, `$.`, `$..`, `$[`, `$[]`, `$['a`, `$["a"`, `$[?(`, `$[?()]`, `$[?(@.a ==)]`, `$[(1+1)]`, `$[(]`, `$.a.b(`, `$.a.nofunc()`, `$.é[`, `$.\u00e9`, "$.\xff", "$.\xff[", "\xff$", "$.a\xc3.\xff..", "$['\xff\xfe']]", "$.\xff\xff\xff[a", "$[\x00]", `$[99999999999999999999]`, `$[1:99999999999999999999]`,
		`$[?(@.a == 99999999999999999999999999999999999999999999999999999999999999999999999999999999999999999999999999999999999e999999)]`, `$[?(@.a =~ /[/)]`, `$['\ud800']`, `$['\z']`, `$["\z"]`,
		`$[?(@.a.g().g() == 1)]`, `$[?($.g().g())]`, `$.a.g().g()`, `$[?(@.a == @.b)]`, `$[?(@.* == 1)]`, `$[?(@.a && (@.b || !@.c))]`, `$[?(((@.a)))]`, `$[?((@.a) == 1)]`, `@.a`, `a`, `['a']`, `..a`, `$.*.*..*[*][*,*]`, `$[0,1:2,*]`, `$[ 0 , 1 ]`, `$[?( @.a==1 )]`)
	// regular-expression literals: escaped delimiter and escaped backslash in every position
	for _, re := range []string{`a\/b`, `ab\\`, `^C:\/tmp\\`, `\/\\`, `\\\/`, `\/`, `\\`, `\/\/`, `a\\\/b\\`, `[\/]`, `\d+\/\\$`, `(?i)a\/`, `\\\\`} {
		paths = append(paths, `$[?(@.a=~/`+re+`/)]`, `$[?(@.a =~ /`+re+`/ && @.b)]`)
	}
	// character-level mutations
	seedPaths := []string{`$.a[?(@.b == 'c' && $.d > 1)].e.f()`, `$..['a','b'][0:2:1].g()`, `$[?(!@.a || 1 <= @.b)]`}
	alphabet := []rune("$@.[]()'\"?*!=<>&|,: -+0a\\/~é\x00")
	x := uint32(12345)
	for _, sp := range seedPaths {
		r := []rune(sp)
		for k := 0; k < 400; k++ {
			x = x*1664525 + 1013904223
			m := append([]rune{}, r...)
			pos := int(x>>8) % len(m)
			x = x*1664525 + 1013904223
			ch := alphabet[int(x>>8)%len(alphabet)]
			switch (x >> 4) % 3 {
			case 0:
				m[pos] = ch
			case 1:
				m = append(m[:pos], m[pos+1:]...)
			default:
				m = append(m[:pos], append([]rune{ch}, m[pos:]...)...)
			}
			paths = append(paths, string(m))
		}
	}
	return paths, cfg
}

func apiCheckParseTotal(t *testing.T) {
	paths, cfg := apiParseCorpus()
	for _, p := range paths {
		apiCheckParse(t, p, cfg)
		if t.Failed() {
			return
		}
		apiCheckParse(t, p)
		if t.Failed() {
			return
		}
	}
}

// C17 (bounded): the accepted language and the error position against an interpreter of jsonpath.peg itself.
// pegNode is a parsing expression; the grammar file is read from the package directory.
type pegNode struct {
	kind string // seq, alt, star, plus, opt, not, and, lit, class, any, ref, eps
	kids []*pegNode
	text string
	neg  bool
	set  [][2]rune
}

type pegGrammar struct {
	rules map[string]*pegNode
	src   []rune
	pos   int
}

func (g *pegGrammar) skip() {
	for g.pos < len(g.src) {
		c := g.src[g.pos]
		if c == ' ' || c == '\t' || c == '\n' || c == '\r' {
			g.pos++
		} else if c == '#' {
			for g.pos < len(g.src) && g.src[g.pos] != '\n' {
				g.pos++
			}
		} else {
			break
		}
	}
}

func (g *pegGrammar) ident() string {
	st := g.pos
	for g.pos < len(g.src) && (g.src[g.pos] == '_' || g.src[g.pos] >= 'a' && g.src[g.pos] <= 'z' || g.src[g.pos] >= 'A' && g.src[g.pos] <= 'Z' || g.pos > st && g.src[g.pos] >= '0' && g.src[g.pos] <= '9') {
		g.pos++
	}
	return string(g.src[st:g.pos])
}

// one possibly escaped character of a literal or class
func (g *pegGrammar) char() rune {
	c := g.src[g.pos]
	g.pos++
	if c != '\\' {
		return c
	}
	e := g.src[g.pos]
	g.pos++
	switch e {
	case 'n':
		return '\n'
	case 't':
		return '\t'
	case 'r':
		return '\r'
	case '0':
		if g.pos < len(g.src) && g.src[g.pos] == 'x' {
			g.pos++
			v := 0
			for k := 0; k < 2; k++ {
				d := g.src[g.pos]
				g.pos++
				switch {
				case d >= '0' && d <= '9':
					v = v*16 + int(d-'0')
				case d >= 'a' && d <= 'f':
					v = v*16 + int(d-'a') + 10
				case d >= 'A' && d <= 'F':
					v = v*16 + int(d-'A') + 10
				}
			}
			return rune(v)
		}
		return 0
	}
	return e
}

func (g *pegGrammar) isRuleStart() bool {
	save := g.pos
	defer func() { g.pos = save }()
	if g.ident() == "" {
		return false
	}
	g.skip()
	return g.pos+1 < len(g.src) && g.src[g.pos] == '<' && g.src[g.pos+1] == '-'
}

func (g *pegGrammar) alt() *pegNode {
	n := &pegNode{kind: "alt"}
	n.kids = append(n.kids, g.seq())
	for {
		g.skip()
		if g.pos < len(g.src) && g.src[g.pos] == '/' {
			g.pos++
			n.kids = append(n.kids, g.seq())
		} else {
			break
		}
	}
	if len(n.kids) == 1 {
		return n.kids[0]
	}
	return n
}

func (g *pegGrammar) seq() *pegNode {
	n := &pegNode{kind: "seq"}
	for {
		g.skip()
		if g.pos >= len(g.src) || g.src[g.pos] == '/' || g.src[g.pos] == ')' || g.src[g.pos] == '>' || g.isRuleStart() {
			break
		}
		n.kids = append(n.kids, g.prefix())
	}
	return n
}

func (g *pegGrammar) prefix() *pegNode {
	g.skip()
	switch g.src[g.pos] {
	case '!':
		g.pos++
		return &pegNode{kind: "not", kids: []*pegNode{g.prefix()}}
	case '&':
		g.pos++
		return &pegNode{kind: "and", kids: []*pegNode{g.prefix()}}
	}
	n := g.primary()
	for {
		// suffixes follow without a line break being significant, but ' *' after `space <- ' '` style is written with a space
		save := g.pos
		g.skip()
		if g.pos < len(g.src) && (g.src[g.pos] == '*' || g.src[g.pos] == '+' || g.src[g.pos] == '?') && !(g.src[g.pos] == '*' && false) {
			k := map[rune]string{'*': "star", '+': "plus", '?': "opt"}[g.src[g.pos]]
			g.pos++
			n = &pegNode{kind: k, kids: []*pegNode{n}}
		} else {
			g.pos = save
			break
		}
	}
	return n
}

func (g *pegGrammar) primary() *pegNode {
	g.skip()
	c := g.src[g.pos]
	switch {
	case c == '(':
		g.pos++
		n := g.alt()
		g.skip()
		g.pos++ // )
		return n
	case c == '<':
		g.pos++
		n := g.alt()
		g.skip()
		g.pos++ // >
		return &pegNode{kind: "cap", kids: []*pegNode{n}}
	case c == '{':
		depth := 0
		for {
			ch := g.src[g.pos]
			g.pos++
			if ch == '`' {
				for g.src[g.pos] != '`' {
					g.pos++
				}
				g.pos++
			} else if ch == '{' {
				depth++
			} else if ch == '}' {
				depth--
				if depth == 0 {
					break
				}
			}
		}
		return &pegNode{kind: "eps"}
	case c == '\'' || c == '"':
		g.pos++
		var lit []rune
		for g.src[g.pos] != c {
			lit = append(lit, g.char())
		}
		g.pos++
		return &pegNode{kind: "lit", text: string(lit)}
	case c == '[':
		g.pos++
		n := &pegNode{kind: "class"}
		if g.src[g.pos] == '^' {
			n.neg = true
			g.pos++
		}
		for g.src[g.pos] != ']' {
			lo := g.char()
			hi := lo
			if g.src[g.pos] == '-' && g.src[g.pos+1] != ']' {
				g.pos++
				hi = g.char()
			}
			n.set = append(n.set, [2]rune{lo, hi})
		}
		g.pos++
		return n
	case c == '.':
		g.pos++
		return &pegNode{kind: "any"}
	}
	id := g.ident()
	if id == "" {
		panic(fmt.Sprintf("peg: unexpected %q at %d", string(c), g.pos))
	}
	return &pegNode{kind: "ref", text: id}
}

func pegLoad() (*pegGrammar, error) {
	data, err := os.ReadFile("jsonpath.peg")
	if err != nil {
		return nil, err
	}
	src := string(data)
	// skip the header up to the first rule
	k := strings.Index(src, "expression <-")
	if k < 0 {
		return nil, fmt.Errorf("no start rule")
	}
	g := &pegGrammar{rules: map[string]*pegNode{}, src: []rune(src[k:])}
	for {
		g.skip()
		if g.pos >= len(g.src) {
			break
		}
		name := g.ident()
		g.skip()
		g.pos += 2 // <-
		g.rules[name] = g.alt()
	}
	return g, nil
}

// pegMatch returns the end position of expression n matched at pos, or -1.  capBegin records the start of the last
// capture entered (the `begin` of an action).
type pegRun struct {
	g    *pegGrammar
	in   []rune
	memo map[[2]interface{}]int
}

func (r *pegRun) match(n *pegNode, pos int) int {
	switch n.kind {
	case "eps":
		return pos
	case "seq":
		for _, k := range n.kids {
			if pos = r.match(k, pos); pos < 0 {
				return -1
			}
		}
		return pos
	case "alt":
		for _, k := range n.kids {
			if e := r.match(k, pos); e >= 0 {
				return e
			}
		}
		return -1
	case "star", "plus":
		cnt := 0
		for {
			e := r.match(n.kids[0], pos)
			if e < 0 || e == pos && cnt > 0 {
				break
			}
			pos = e
			cnt++
		}
		if n.kind == "plus" && cnt == 0 {
			return -1
		}
		return pos
	case "opt":
		if e := r.match(n.kids[0], pos); e >= 0 {
			return e
		}
		return pos
	case "not":
		if r.match(n.kids[0], pos) >= 0 {
			return -1
		}
		return pos
	case "and":
		if r.match(n.kids[0], pos) >= 0 {
			return pos
		}
		return -1
	case "cap":
		return r.match(n.kids[0], pos)
	case "lit":
		lit := []rune(n.text)
		if pos+len(lit) > len(r.in) {
			return -1
		}
		for i, c := range lit {
			if r.in[pos+i] != c {
				return -1
			}
		}
		return pos + len(lit)
	case "class":
		if pos >= len(r.in) {
			return -1
		}
		in := false
		for _, rg := range n.set {
			if r.in[pos] >= rg[0] && r.in[pos] <= rg[1] {
				in = true
			}
		}
		if in != n.neg {
			return pos + 1
		}
		return -1
	case "any":
		if pos < len(r.in) {
			return pos + 1
		}
		return -1
	case "ref":
		key := [2]interface{}{n.text, pos}
		if e, ok := r.memo[key]; ok {
			return e
		}
		rule := r.g.rules[n.text]
		if rule == nil {
			panic("peg: unknown rule " + n.text)
		}
		e := r.match(rule, pos)
		r.memo[key] = e
		return e
	}
	panic("peg: kind " + n.kind)
}

// pegBoundaryChars: every character the grammar mentions - in a literal or as an end of a class range - together with its
// two neighbours: the characters at which acceptance can change
func pegBoundaryChars(g *pegGrammar) []rune {
	seen := map[rune]bool{}
	add := func(c rune) {
		for _, d := range []rune{c - 1, c, c + 1} {
			if d >= 0 && d <= 0x10FFFF && !(d >= 0xD800 && d <= 0xDFFF) {
				seen[d] = true
			}
		}
	}
	var walk func(n *pegNode)
	walk = func(n *pegNode) {
		switch n.kind {
		case "lit":
			for _, c := range n.text {
				add(c)
			}
		case "class":
			for _, r := range n.set {
				add(r[0])
				add(r[1])
			}
		}
		for _, k := range n.kids {
			walk(k)
		}
	}
	for _, r := range g.rules {
		walk(r)
	}
	var out []rune
	for c := range seen {
		out = append(out, c)
	}
	sort.Slice(out, func(i, j int) bool { return out[i] < out[j] })
	return out
}

// pegBoundaryCorpus: every boundary character substituted for, and inserted before, every character of seed paths that
// between them use every rule of the grammar
func pegBoundaryCorpus(g *pegGrammar) []string {
	seeds := []string{
		`$.ab.c`, `$..ab[0]`, `ab.cd`, `$['ab',"cd"].*`, `$[0:1:2,3,*]`, `$[?(@.ab==1.5e3&&$.c!='de')]`, `$[?(!@.a||(@.b<=2))]`,
		`$[?(@.a=~/ab/)]`, `$.ab.fn()`, `$['\u00e9\n']`, `$[?(@.a>"d\"e")]`, `$[?(@.a==true||@.b==null)]`, `$[(ab)]`, `@.ab`, `$[*].ab[-1]`, `$.a\.b`,
	}
	if !apiThorough {
		seeds = seeds[:10]
	}
	chars := pegBoundaryChars(g)
	var out []string
	// escapes: every pair and triple of the escaping characters inserted at every position of quoted texts
	esc := []string{"\\", "'", "\"", "/", "a"}
	var combos []string
	for _, a := range esc {
		for _, b := range esc {
			combos = append(combos, a+b)
			for _, c := range esc[:3] {
				combos = append(combos, a+b+c)
			}
		}
	}
	for _, sd := range []string{`$[?(@.a=='de')]`, `$[?(@.a=="de")]`, `$[?(@.a=~/de/)]`, `$['de']`, `$["de"]`, `$.d.e`, `$['d','e']`} {
		r := []rune(sd)
		for pos := 0; pos <= len(r); pos++ {
			for _, c := range combos {
				out = append(out, string(r[:pos])+c+string(r[pos:]))
			}
		}
	}
	for _, sd := range seeds {
		r := []rune(sd)
		for pos := 0; pos <= len(r); pos++ {
			for _, c := range chars {
				ins := append(append(append([]rune{}, r[:pos]...), c), r[pos:]...)
				out = append(out, string(ins))
				if pos < len(r) && r[pos] != c {
					sub := append([]rune{}, r...)
					sub[pos] = c
					out = append(out, string(sub))
				}
			}
		}
	}
	return out
}

// pegCover: strings that between them take every choice point of the grammar (each alternative, an optional part present
// and absent, a repetition zero, one and two times, each end of each character range and its outside neighbours), every
// other part minimal, each embedded in the shortest context that reaches its rule from `jsonpath`.  Predicates and
// ordered choice are ignored when generating (the context-free skeleton): whether a string is derivable is decided by the
// interpreter, the generator only has to put strings on both sides of every boundary.
type pegCover struct {
	g   *pegGrammar
	min map[string]*string
	ctx map[string][2]string
}

func (c *pegCover) classChars(n *pegNode) []rune {
	var out []rune
	add := func(r rune) {
		if r >= 0 && r <= 0x10FFFF && !(r >= 0xD800 && r <= 0xDFFF) {
			out = append(out, r)
		}
	}
	for _, r := range n.set {
		add(r[0])
		add(r[1])
		add(r[0] - 1)
		add(r[1] + 1)
	}
	add('a')
	return out
}

func (c *pegCover) inClass(n *pegNode, r rune) bool {
	in := false
	for _, rg := range n.set {
		if r >= rg[0] && r <= rg[1] {
			in = true
		}
	}
	return in != n.neg
}

// minOf: a shortest string of the skeleton of n (nil while unknown)
func (c *pegCover) minOf(n *pegNode) *string {
	str := func(s string) *string { return &s }
	switch n.kind {
	case "lit":
		return str(n.text)
	case "class":
		for _, r := range append(c.classChars(n), 'b', '0', ' ', '~') {
			if c.inClass(n, r) {
				return str(string(r))
			}
		}
		return str("a")
	case "any":
		return str("a")
	case "eps", "not", "and", "star", "opt":
		return str("")
	case "plus", "cap":
		return c.minOf(n.kids[0])
	case "ref":
		return c.min[n.text]
	case "seq":
		out := ""
		for _, k := range n.kids {
			m := c.minOf(k)
			if m == nil {
				return nil
			}
			out += *m
		}
		return &out
	case "alt":
		var best *string
		for _, k := range n.kids {
			if m := c.minOf(k); m != nil && (best == nil || len(*m) < len(*best)) {
				best = m
			}
		}
		return best
	}
	return str("")
}

func (c *pegCover) m(n *pegNode) string {
	if v := c.minOf(n); v != nil {
		return *v
	}
	return ""
}

// variants: the strings of n in which one choice is made each way, everything else minimal
func (c *pegCover) variants(n *pegNode) []string {
	switch n.kind {
	case "lit":
		return []string{n.text}
	case "class":
		var out []string
		for _, r := range c.classChars(n) {
			out = append(out, string(r))
		}
		return out
	case "any":
		return []string{"a", "é", "\x00", " "}
	case "eps", "not", "and":
		return []string{""}
	case "cap":
		return c.variants(n.kids[0])
	case "ref":
		return []string{c.m(n)}
	case "opt":
		return append([]string{""}, c.variants(n.kids[0])...)
	case "star":
		one := c.m(n.kids[0])
		return append([]string{"", one + one}, c.variants(n.kids[0])...)
	case "plus":
		one := c.m(n.kids[0])
		return append([]string{one + one}, c.variants(n.kids[0])...)
	case "alt":
		var out []string
		for _, k := range n.kids {
			out = append(out, c.variants(k)...)
		}
		return out
	case "seq":
		var out []string
		for i, k := range n.kids {
			before, after := "", ""
			for _, b := range n.kids[:i] {
				before += c.m(b)
			}
			for _, a := range n.kids[i+1:] {
				after += c.m(a)
			}
			for _, v := range c.variants(k) {
				out = append(out, before+v+after)
			}
		}
		return out
	}
	return []string{""}
}

// contexts: for every rule reachable from `jsonpath`, a (prefix, suffix) pair of a shortest string around one of its uses
func (c *pegCover) contexts() {
	c.ctx = map[string][2]string{"jsonpath": {"", ""}}
	queue := []string{"jsonpath"}
	var walk func(n *pegNode, pre, suf string)
	walk = func(n *pegNode, pre, suf string) {
		switch n.kind {
		case "ref":
			if _, seen := c.ctx[n.text]; !seen && c.g.rules[n.text] != nil {
				c.ctx[n.text] = [2]string{pre, suf}
				queue = append(queue, n.text)
			}
		case "seq":
			for i, k := range n.kids {
				before, after := "", ""
				for _, b := range n.kids[:i] {
					before += c.m(b)
				}
				for _, a := range n.kids[i+1:] {
					after += c.m(a)
				}
				walk(k, pre+before, after+suf)
			}
		case "alt":
			for _, k := range n.kids {
				walk(k, pre, suf)
			}
		case "star", "plus", "opt", "cap":
			walk(n.kids[0], pre, suf)
		}
	}
	for len(queue) > 0 {
		r := queue[0]
		queue = queue[1:]
		walk(c.g.rules[r], c.ctx[r][0], c.ctx[r][1])
	}
}

func pegCoverCorpus(g *pegGrammar) []string {
	c := &pegCover{g: g, min: map[string]*string{}}
	for changed := true; changed; {
		changed = false
		for name, body := range g.rules {
			m := c.minOf(body)
			if m != nil && (c.min[name] == nil || len(*m) < len(*c.min[name])) {
				c.min[name] = m
				changed = true
			}
		}
	}
	c.contexts()
	seen := map[string]bool{}
	var base []string
	var names []string
	for name := range c.ctx {
		names = append(names, name)
	}
	sort.Strings(names)
	for _, name := range names {
		cx := c.ctx[name]
		for _, v := range c.variants(g.rules[name]) {
			s := cx[0] + v + cx[1]
			if !seen[s] && len(s) < 80 {
				seen[s] = true
				base = append(base, s)
			}
		}
	}
	out := append([]string{}, base...)
	// every covering string with one character replaced / inserted from the characters the grammar is written with
	alphabet := []rune("\\'\". []()*?!=<>&|,:-+0a/~@$ e")
	if !apiThorough {
		alphabet = []rune("\\'\". ])*a")
	}
	for _, b := range base {
		r := []rune(b)
		for pos := 0; pos <= len(r); pos++ {
			for _, ch := range alphabet {
				ins := string(r[:pos]) + string(ch) + string(r[pos:])
				if !seen[ins] {
					seen[ins] = true
					out = append(out, ins)
				}
				if pos < len(r) && r[pos] != ch && apiThorough {
					sub := string(r[:pos]) + string(ch) + string(r[pos+1:])
					if !seen[sub] {
						seen[sub] = true
						out = append(out, sub)
					}
				}
			}
		}
	}
	return out
}

// pegTokenCorpus: every sequence of up to three lexical tokens of the path language (and a deterministic sample of the
// sequences of four; all of them and a sample of five in the thorough tier) - exhaustive at the token level where the
// other corpora are local mutations of well-formed paths
func pegTokenCorpus() []string {
	toks := []string{"$", "@", ".a", "..", "[", "]", "'a'", "\"a\"", "*", "?(", ")", "(", "==", "!=", "<", "<=", ">", ">=", "=~", "/a/", "&&", "||", "!", ",", ":", "1", "-1", " ", "true", "null", ".f()", "a", "."}
	var out []string
	var rec func(prefix string, depth, max int, stride *int)
	rec = func(prefix string, depth, max int, stride *int) {
		if depth == max {
			return
		}
		for _, tk := range toks {
			s := prefix + tk
			if depth+1 < 4 || apiThorough && depth+1 == 4 {
				out = append(out, s)
			} else {
				*stride++
				if (!apiThorough && *stride%9 == 0) || (apiThorough && *stride%41 == 0) {
					out = append(out, s)
				}
			}
			rec(s, depth+1, max, stride)
		}
	}
	n := 0
	max := 4
	if apiThorough {
		max = 5
	}
	rec("", 0, max, &n)
	return out
}

func apiCheckGrammar(t *testing.T) {
	g, err := pegLoad()
	if err != nil {
		t.Errorf("REPRODUCED: cannot read the published grammar: %v", err)
		return
	}
	paths, cfg := apiParseCorpus()
	paths = append(paths, pegBoundaryCorpus(g)...)
	paths = append(paths, pegCoverCorpus(g)...)
	paths = append(paths, pegTokenCorpus()...)
	// documented semantic restriction: a comparison never has two current-node operands, whatever the operator and however
	// the comparison is embedded
	cur := []string{`@.a`, `@`, `@.a.f()`, `@.a[0]`, `@['a']`, `@.a.b`, `@..a`, `@.*`, `@.a.g()`}
	for _, a := range cur {
		for _, b := range cur {
			for _, o := range []string{`==`, `!=`, `<`, `<=`, `>`, `>=`} {
				for _, frame := range []string{`$[?(%s)]`, `$[?(@.x && %s)]`, `$[?(@.x || (%s))]`, `$.a[?(%s)].b`, `$[?($.y == 1 && %s || @.z)]`} {
					p := fmt.Sprintf(frame, a+` `+o+` `+b)
					apiCount()
					if _, err := Parse(p, cfg); err == nil {
						t.Errorf("REPRODUCED: %q compares two current-node operands and is accepted", p)
						return
					}
				}
			}
		}
	}
	for _, p := range paths {
		in := []rune(p)
		run := &pegRun{g: g, in: in, memo: map[[2]interface{}]int{}}
		whole := run.match(&pegNode{kind: "seq", kids: []*pegNode{{kind: "ref", text: "jsonpath"}, {kind: "ref", text: "END"}}}, 0) >= 0
		var perr error
		func() {
			defer func() {
				if r := recover(); r != nil {
					perr = fmt.Errorf("panic: %v", r)
				}
			}()
			apiCount()
			_, perr = Parse(p, cfg)
		}()
		se, isSyntax := perr.(ErrorInvalidSyntax)
		unrecognised := isSyntax && strings.Contains(se.Error(), "reason=unrecognized input")
		if whole {
			if unrecognised {
				t.Errorf("REPRODUCED: %q is derivable from jsonpath.peg but Parse rejects it as unrecognized input: %v", p, perr)
				return
			}
			continue
		}
		// not derivable: the error names the end of the longest prefix `jsonpath?` accepts, and `near` is the rest
		begin := run.match(&pegNode{kind: "opt", kids: []*pegNode{{kind: "ref", text: "jsonpath"}}}, 0)
		want := fmt.Sprintf("invalid syntax (position=%d, reason=unrecognized input, near=%s)", begin, string(in[begin:]))
		if perr != nil && perr.Error() != want && begin > 0 {
			// the actions of the accepted prefix run before the action that reports the syntax error: a semantic
			// restriction the prefix violates on its own (unknown function, bad number, ...) is reported instead
			var prefErr error
			func() {
				defer func() {
					if r := recover(); r != nil {
						prefErr = fmt.Errorf("panic: %v", r)
					}
				}()
				apiCount()
				_, prefErr = Parse(string(in[:begin]), cfg)
			}()
			if prefErr != nil && prefErr.Error() == perr.Error() {
				continue
			}
		}
		if !isSyntax || perr.Error() != want {
			t.Errorf("REPRODUCED: %q is not derivable from jsonpath.peg: Parse gives %v, expected %s", p, perr, want)
			return
		}
	}
}

// C19: Parse depends only on its own arguments
func apiCheckParseIndependent(t *testing.T) {
	plain := Config{}
	withF := Config{}
	withF.SetFilterFunction("f", func(v interface{}) (interface{}, error) { return "F", nil })
	withF.SetAggregateFunction("g", func(v []interface{}) (interface{}, error) { return "G", nil })
	withAcc := Config{}
	withAcc.SetAccessorMode()
	withAcc.SetFilterFunction("f", func(v interface{}) (interface{}, error) { return "F2", nil })
	failing := []string{`$.a.nofunc()`, `$[(1)]`, `$[?(@.* == 1)]`, `$[99999999999999999999]`, `$.a.f().zz(`, `$[?(@.a =~ /(/)]`, `$['\z']`, `$.a.f()[`, `$[?(@.a == 1)]trailing`}
	doc := apiDecode(`{"a":1,"b":[1,2]}`)
	probe := func(ctx string) {
		// without a config no function is known and results are plain values
		apiCount()
		if _, err := Parse(`$.a.f()`); err == nil {
			t.Errorf("REPRODUCED: %s: Parse(`$.a.f()`) without Config succeeded: a function leaked from an earlier call", ctx)
			return
		} else if _, ok := err.(ErrorFunctionNotFound); !ok {
			t.Errorf("REPRODUCED: %s: Parse(`$.a.f()`) without Config: %T %v", ctx, err, err)
			return
		}
		apiCount()
		if _, err := Parse(`$.b.g()`, plain); err == nil {
			t.Errorf("REPRODUCED: %s: aggregate function leaked into a call with an empty Config", ctx)
			return
		}
		apiCount()
		res, err := Retrieve(`$.a`, doc)
		if err != nil || len(res) != 1 || res[0] != 1.0 {
			t.Errorf("REPRODUCED: %s: Retrieve(`$.a`) without Config = %#v, %v (accessor mode or state leaked)", ctx, res, err)
			return
		}
		apiCount()
		res, err = Retrieve(`$.a.f()`, doc, withF)
		if err != nil || len(res) != 1 || res[0] != "F" {
			t.Errorf("REPRODUCED: %s: Retrieve(`$.a.f()`, withF) = %#v, %v", ctx, res, err)
			return
		}
	}
	probe("initially")
	for _, cfg := range []Config{withF, withAcc} {
		for _, fp := range failing {
			func() {
				defer func() { recover() }()
				apiCount()
				_, _ = Parse(fp, cfg)
			}()
			probe(fmt.Sprintf("after the failing Parse(%q) with a Config", fp))
			if t.Failed() {
				return
			}
		}
		apiCount()
		_, _ = Parse(`$.a.f()`, cfg)
		probe("after a successful Parse with a Config")
		if t.Failed() {
			return
		}
	}
	// several Configs in one call: only what the documentation says is used, and no Config is changed by the call
	{
		a := Config{}
		a.SetFilterFunction("fa", func(v interface{}) (interface{}, error) { return "A", nil })
		a.SetAggregateFunction("ga", func(v []interface{}) (interface{}, error) { return "GA", nil })
		b := Config{}
		b.SetFilterFunction("fb", func(v interface{}) (interface{}, error) { return "B", nil })
		b.SetAggregateFunction("gb", func(v []interface{}) (interface{}, error) { return "GB", nil })
		b.SetAccessorMode()
		outcome := func(path string, cfgs ...Config) string {
			apiCount()
			res, err := Retrieve(path, doc, cfgs...)
			return fmt.Sprintf("%v %T", res, err)
		}
		before := []string{outcome(`$.a.fb()`, a), outcome(`$.b.gb()`, a), outcome(`$.a.fa()`, b), outcome(`$.b.ga()`, b), outcome(`$.a`, a)}
		for _, p := range []string{`$.a.fa()`, `$.a.fb()`, `$.b.ga()`, `$.b.gb()`, `$.a`, `$.a.nofunc()`} {
			outcome(p, a, b)
			outcome(p, b, a)
			outcome(p, a, b, withF)
		}
		after := []string{outcome(`$.a.fb()`, a), outcome(`$.b.gb()`, a), outcome(`$.a.fa()`, b), outcome(`$.b.ga()`, b), outcome(`$.a`, a)}
		for i := range before {
			if before[i] != after[i] {
				t.Errorf("REPRODUCED: calls given several Configs changed what a single Config does: probe %d was %q, is now %q", i, before[i], after[i])
				return
			}
		}
		probe("after calls given several Configs")
		if t.Failed() {
			return
		}
	}
	// a parsed function keeps the functions it was parsed with
	cfg := Config{}
	cfg.SetFilterFunction("f", func(v interface{}) (interface{}, error) { return "old", nil })
	apiCount()
	fn, err := Parse(`$.a.f()`, cfg)
	if err == nil {
		cfg.SetFilterFunction("f", func(v interface{}) (interface{}, error) { return "new", nil })
		res, err := fn(doc)
		if err != nil || len(res) != 1 || res[0] != "old" {
			t.Errorf("REPRODUCED: a parsed function changed behaviour after its Config was modified: %#v %v", res, err)
		}
	}
	// the same path parsed again: every call sees the Config as it is THEN (the Config's maps are updated in place, a copy
	// of a Config shares them, accessor mode is part of the Config) - no result of an earlier Parse may stand in
	for _, path := range []string{`$.a.f()`, `$.b.g()`, `$.b[?(@.f() == "two")]`, `$.a`} {
		c := Config{}
		c.SetFilterFunction("f", func(v interface{}) (interface{}, error) { return "one", nil })
		c.SetAggregateFunction("g", func(v []interface{}) (interface{}, error) { return "one", nil })
		show := func(c Config) string {
			apiCount()
			fn, err := Parse(path, c)
			if err != nil {
				return fmt.Sprintf("%T", err)
			}
			res, err := fn(doc)
			for i := range res {
				if acc, ok := res[i].(Accessor); ok {
					res[i] = fmt.Sprintf("accessor(%v)", acc.Get())
				}
			}
			return fmt.Sprintf("%v %T", res, err)
		}
		first := show(c)
		c.SetFilterFunction("f", func(v interface{}) (interface{}, error) { return "two", nil })
		c.SetAggregateFunction("g", func(v []interface{}) (interface{}, error) { return "two", nil })
		second := show(c)
		fresh := Config{}
		fresh.SetFilterFunction("f", func(v interface{}) (interface{}, error) { return "two", nil })
		fresh.SetAggregateFunction("g", func(v []interface{}) (interface{}, error) { return "two", nil })
		if want := show(fresh); second != want {
			t.Errorf("REPRODUCED: Parse(%q) after its Config re-registered the functions gives %s, a fresh Config with the same content gives %s (first Parse gave %s)", path, second, want, first)
			return
		}
		d := c // shares the maps
		d.SetFilterFunction("f", func(v interface{}) (interface{}, error) { return "three", nil })
		d.SetAggregateFunction("g", func(v []interface{}) (interface{}, error) { return "three", nil })
		third := show(d)
		fresh3 := Config{}
		fresh3.SetFilterFunction("f", func(v interface{}) (interface{}, error) { return "three", nil })
		fresh3.SetAggregateFunction("g", func(v []interface{}) (interface{}, error) { return "three", nil })
		if want := show(fresh3); third != want {
			t.Errorf("REPRODUCED: Parse(%q) with a copied and updated Config gives %s, a fresh Config with the same content gives %s", path, third, want)
			return
		}
		c.SetAccessorMode()
		fresh.SetAccessorMode()
		fresh.SetFilterFunction("f", func(v interface{}) (interface{}, error) { return "three", nil })
		fresh.SetAggregateFunction("g", func(v []interface{}) (interface{}, error) { return "three", nil })
		if got, want := show(c), show(fresh); got != want {
			t.Errorf("REPRODUCED: Parse(%q) after its Config switched to accessor mode gives %s, a fresh Config gives %s", path, got, want)
			return
		}
	}
}

// ---------------------------------------------------------------------------------------------------------------
// C18: equivalent spellings.  A path is generated as a small AST; sp renders it - canonically (no optional space, `$`
// written, dot names, single quotes, plain integers) or with the variations the grammar declares insignificant drawn
// from a seeded generator.  Every spelling must parse and give, on every document, the values of the canonical
// spelling or an error of the same type.

type sp struct {
	r     *rand.Rand
	canon bool
}

func (s *sp) n(k int) int {
	if s.canon {
		return 0
	}
	return s.r.Intn(k)
}

func (s *sp) space() string {
	return strings.Repeat(" ", []int{0, 0, 1, 3}[s.n(4)])
}

func (s *sp) integer(v int) string {
	sign, digits := "", fmt.Sprint(v)
	if v < 0 {
		sign, digits = "-", digits[1:]
	} else if s.n(3) == 1 {
		sign = "+"
	}
	return sign + []string{"", "", "0", "00"}[s.n(4)] + digits
}

func (s *sp) quoted(k string) string {
	if s.n(2) == 1 {
		return `"` + k + `"`
	}
	return "'" + k + "'"
}

type spNode struct {
	kind  string // name multi wild index slice union filter | or and not paren cmp exists | path number string word
	key   string
	keys  []string
	num   int
	parts []*int
	kids  []*spNode
	rec   bool // `..` before the step
	op    string
	root  string // `@` or `$` of a path inside a filter
}

func (s *sp) bracket(inner string) string { return "[" + s.space() + inner + s.space() + "]" }

// step renders one step; first: it is the first step of the whole path (where `$` may be left out)
func (s *sp) step(n *spNode) (text string, bracket bool) {
	switch n.kind {
	case "name":
		if s.n(3) == 0 {
			return "." + n.key, false
		}
		return s.bracket(s.quoted(n.key)), true
	case "wild":
		if s.n(2) == 0 {
			return ".*", false
		}
		return s.bracket("*"), true
	case "multi":
		var ks []string
		for _, k := range n.keys {
			ks = append(ks, s.quoted(k))
		}
		return s.bracket(s.join(ks, ",")), true
	case "index":
		return s.bracket(s.integer(n.num)), true
	case "slice":
		return s.bracket(s.slice(n.parts)), true
	case "union":
		var items []string
		for _, k := range n.kids {
			switch k.kind {
			case "index":
				items = append(items, s.integer(k.num))
			case "slice":
				items = append(items, s.slice(k.parts))
			default:
				items = append(items, "*")
			}
		}
		return s.bracket(s.join(items, ",")), true
	case "filter":
		return s.bracket("?(" + s.space() + s.query(n.kids[0]) + s.space() + ")"), true
	case "func":
		return "." + n.key + "()", false
	}
	panic("sp: step kind " + n.kind)
}

func (s *sp) join(items []string, sep string) string {
	out := ""
	for i, it := range items {
		if i > 0 {
			out += s.space() + sep + s.space()
		}
		out += it
	}
	return out
}

func (s *sp) slice(parts []*int) string {
	var items []string
	for _, p := range parts {
		if p == nil {
			items = append(items, "")
		} else {
			items = append(items, s.integer(*p))
		}
	}
	return s.join(items, ":")
}

func (s *sp) steps(steps []*spNode, root string, mayOmitRoot bool) string {
	out := root
	for i, n := range steps {
		text, bracket := s.step(n)
		if n.rec {
			if bracket {
				text = ".." + text
			} else {
				text = "." + text
			}
		}
		if i == 0 && mayOmitRoot && !n.rec && (bracket || n.kind == "name") && s.n(3) == 1 {
			// `$` may be left out before a name or a bracket
			out = ""
			if !bracket {
				text = text[1:]
			}
		}
		out += text
	}
	return out
}

func (s *sp) query(n *spNode) string {
	switch n.kind {
	case "or":
		return s.query(n.kids[0]) + s.space() + "||" + s.space() + s.query(n.kids[1])
	case "and":
		return s.query(n.kids[0]) + s.space() + "&&" + s.space() + s.query(n.kids[1])
	case "paren":
		return "(" + s.space() + s.query(n.kids[0]) + s.space() + ")"
	case "not":
		return "!" + s.space() + s.query(n.kids[0])
	case "exists":
		return s.query(n.kids[0])
	case "cmp":
		return s.query(n.kids[0]) + s.space() + n.op + s.space() + s.query(n.kids[1])
	case "path":
		return s.space() + s.steps(n.kids, n.root, false) + s.space()
	case "number":
		if n.key != "" { // a decimal fraction: sign and leading zeros vary, the digits do not
			sign := ""
			if s.n(3) == 1 {
				sign = "+"
			}
			return sign + []string{"", "", "0", "00"}[s.n(4)] + n.key
		}
		return s.integer(n.num)
	case "string":
		return s.quoted(n.key)
	case "word":
		return n.key
	}
	panic("sp: query kind " + n.kind)
}

type spGen struct{ r *rand.Rand }

func (g *spGen) key() string { return []string{"a", "b", "c", "p", "y", "a", "b"}[g.r.Intn(7)] }

func (g *spGen) intp(lo, hi int) *int {
	if g.r.Intn(3) == 0 {
		return nil
	}
	v := lo + g.r.Intn(hi-lo+1)
	return &v
}

func (g *spGen) sliceParts() []*int {
	parts := []*int{g.intp(-3, 4), g.intp(-3, 5)}
	if g.r.Intn(2) == 0 {
		st := []int{1, 2, -1, -2, 3}[g.r.Intn(5)]
		parts = append(parts, &st)
	}
	return parts
}

func (g *spGen) stepNode(depth int) *spNode {
	switch k := g.r.Intn(12); {
	case k < 4:
		return &spNode{kind: "name", key: g.key()}
	case k == 4:
		return &spNode{kind: "wild"}
	case k == 5:
		n := &spNode{kind: "multi"}
		for i := 2 + g.r.Intn(2); i > 0; i-- {
			n.keys = append(n.keys, g.key())
		}
		return n
	case k == 6 || k == 7:
		if g.r.Intn(4) == 0 {
			return &spNode{kind: "index", num: 7 + g.r.Intn(6)} // two digits, 8 and 9 (no octal reading of a leading zero)
		}
		return &spNode{kind: "index", num: g.r.Intn(6) - 2}
	case k == 8:
		return &spNode{kind: "slice", parts: g.sliceParts()}
	case k == 9:
		n := &spNode{kind: "union"}
		for i := 2 + g.r.Intn(2); i > 0; i-- {
			switch g.r.Intn(4) {
			case 0:
				n.kids = append(n.kids, &spNode{kind: "slice", parts: g.sliceParts()})
			case 1:
				n.kids = append(n.kids, &spNode{kind: "wild"})
			default:
				n.kids = append(n.kids, &spNode{kind: "index", num: g.r.Intn(5) - 2})
			}
		}
		return n
	default:
		if depth <= 0 {
			return &spNode{kind: "name", key: g.key()}
		}
		return &spNode{kind: "filter", kids: []*spNode{g.orNode(depth - 1)}}
	}
}

func (g *spGen) pathNode(root string, single bool) *spNode {
	n := &spNode{kind: "path", root: root}
	for i := 1 + g.r.Intn(2); i > 0; i-- {
		if single || g.r.Intn(4) > 0 {
			n.kids = append(n.kids, &spNode{kind: "name", key: g.key()})
		} else {
			n.kids = append(n.kids, &spNode{kind: "index", num: g.r.Intn(3)})
		}
	}
	return n
}

func (g *spGen) orNode(depth int) *spNode {
	n := g.andNode(depth)
	for g.r.Intn(4) == 0 {
		n = &spNode{kind: "or", kids: []*spNode{n, g.andNode(depth)}}
	}
	return n
}

func (g *spGen) andNode(depth int) *spNode {
	n := g.basicNode(depth)
	for g.r.Intn(4) == 0 {
		n = &spNode{kind: "and", kids: []*spNode{n, g.basicNode(depth)}}
	}
	return n
}

func (g *spGen) basicNode(depth int) *spNode {
	switch k := g.r.Intn(10); {
	case k == 0 && depth > 0:
		return &spNode{kind: "paren", kids: []*spNode{g.orNode(depth - 1)}}
	case k <= 2:
		return &spNode{kind: "exists", kids: []*spNode{g.pathNode("@", false)}}
	case k == 3:
		return &spNode{kind: "not", kids: []*spNode{g.pathNode("@", false)}}
	case k <= 6:
		op := []string{"<", "<=", ">", ">="}[g.r.Intn(4)]
		return &spNode{kind: "cmp", op: op, kids: []*spNode{g.pathNode("@", false), g.numberNode()}}
	default:
		op := []string{"==", "!="}[g.r.Intn(2)]
		var right *spNode
		switch g.r.Intn(5) {
		case 0:
			right = &spNode{kind: "string", key: []string{"s", "x y", "", "a"}[g.r.Intn(4)]}
		case 1:
			right = &spNode{kind: "word", key: []string{"true", "false", "null"}[g.r.Intn(3)]}
		case 2:
			right = g.pathNode("$", true)
		default:
			right = g.numberNode()
		}
		if g.r.Intn(4) == 0 {
			return &spNode{kind: "cmp", op: op, kids: []*spNode{right, g.pathNode("@", false)}}
		}
		return &spNode{kind: "cmp", op: op, kids: []*spNode{g.pathNode("@", false), right}}
	}
}

func (g *spGen) numberNode() *spNode {
	if g.r.Intn(4) == 0 {
		return &spNode{kind: "number", key: []string{"1.5", "2.0", "0.5", "3e0"}[g.r.Intn(4)]}
	}
	return &spNode{kind: "number", num: g.r.Intn(13) - 1}
}

func (g *spGen) pathSteps() []*spNode {
	var steps []*spNode
	for i := 1 + g.r.Intn(4); i > 0; i-- {
		n := g.stepNode(2)
		if g.r.Intn(6) == 0 {
			n.rec = true
		}
		steps = append(steps, n)
	}
	// functions come last: an aggregate (sees all matches) and / or a filter function (sees each)
	for k := g.r.Intn(6); k < 2; k++ {
		steps = append(steps, &spNode{kind: "func", key: []string{"count", "twice", "count"}[g.r.Intn(3)]})
	}
	return steps
}

func spErrType(o apiOutcome) string {
	if i := strings.Index(o.err, ":"); i >= 0 {
		return o.err[:i]
	}
	return o.err
}

func apiCheckSpellings(t *testing.T) {
	asts, variants := 3000, 5
	if apiThorough {
		asts, variants = 40000, 12
	}
	g := &spGen{r: rand.New(rand.NewSource(18))}
	var docs []interface{}
	for _, ds := range refDocs() {
		docs = append(docs, refDecode(ds, false))
	}
	docs = append(docs, refDecode(`[{"a":1.5,"b":"s","c":true,"p":[0,1,2,3,4,5],"y":null},{"a":"x y","b":2,"c":[{"a":2.0},{"a":0.5}],"p":{"a":{"b":3}}},{"a":{"b":1},"b":[3,{"a":1}],"y":""}]`, false))
	docs = append(docs, refDecode(`{"a":[0,1,2,3,4,5,6,7,8,9,10,11,12],"b":[{"a":8},{"a":9},{"a":10},{"a":12}],"p":[[0,1,2,3,4,5,6,7,8,9,10],{"y":[0,1,2,3,4,5,6,7,8,9]}]}`, false))
	cfg := Config{}
	cfg.SetAggregateFunction("count", func(vs []interface{}) (interface{}, error) { return float64(len(vs)), nil })
	cfg.SetFilterFunction("twice", func(v interface{}) (interface{}, error) { return []interface{}{v, v}, nil })
	// quote style on names the JSON decoder treats specially (raw control characters, invalid UTF-8, non-ASCII): the two
	// quote styles give the same outcome - values or the type of the syntax-check error
	for _, k := range []string{"a\tb", "a\nb", "\x01", "a\xffb", "\xc3", "é", "a b", " ", "a\x7fb", "\u2028", "a\x00b", "a/b", "$", "@", "*"} {
		doc := map[string]interface{}{k: 1.0, strings.ToValidUTF8(k, "\ufffd"): 2.0}
		var outs [2]string
		for q, quote := range []string{"'", `"`} {
			for _, path := range []string{"$[" + quote + k + quote + "]", "$..[" + quote + k + quote + "]", "$[" + quote + k + quote + ",'zz']"} {
				apiCount()
				f, err := Parse(path, cfg)
				if err != nil {
					outs[q] += fmt.Sprintf("%T;", err)
					continue
				}
				o, _ := apiEval(f, doc)
				outs[q] += o.res + spErrType(o) + ";"
			}
		}
		if outs[0] != outs[1] {
			t.Errorf("REPRODUCED: C18: the quote styles differ on the name %q: single %s double %s", k, outs[0], outs[1])
			return
		}
	}
	for i := 0; i < asts && !t.Failed(); i++ {
		steps := g.pathSteps()
		canon := (&sp{canon: true}).steps(steps, "$", true)
		cf := apiParse(t, canon, cfg)
		seen := map[string]bool{canon: true}
		for v := 0; v < variants; v++ {
			text := (&sp{r: rand.New(rand.NewSource(int64(1000*i + v)))}).steps(steps, "$", true)
			if v == variants-1 {
				text = " " + text + "  " // leading and trailing spaces
			}
			if seen[text] {
				continue
			}
			seen[text] = true
			vf := apiParse(t, text, cfg)
			if (cf == nil) != (vf == nil) {
				t.Errorf("REPRODUCED: C18: %q parses: %v but its spelling %q parses: %v", canon, cf != nil, text, vf != nil)
				return
			}
			if cf == nil {
				continue
			}
			for _, doc := range docs {
				co, _ := apiEval(cf, doc)
				vo, _ := apiEval(vf, doc)
				if co.panic != nil || vo.panic != nil {
					t.Errorf("REPRODUCED: C18: panic evaluating %q / %q on %s: %v %v", canon, text, apiSnapshot(doc), co.panic, vo.panic)
					return
				}
				if co.res != vo.res || spErrType(co) != spErrType(vo) {
					t.Errorf("REPRODUCED: C18: spellings differ on %s:\n  %q -> %s %s\n  %q -> %s %s", apiSnapshot(doc), canon, co.res, co.err, text, vo.res, vo.err)
					return
				}
			}
		}
	}
}

// ---------------------------------------------------------------------------------------------------------------
// Tree monitor (bounded stand-in for the ASSUMED postcondition of Execute: the tree handed to evaluation is well formed).
// The contracts of the evaluation-time code assume WFnode(root): every node has its embedded basic node, nodes that can
// report an error carry an error context naming themselves with a non-empty remaining-path text, links and operands are
// non-nil, compare operands are single-valued with the constant operand on the right ...  Nothing at parse time proves it
// (the recogniser and the token replay are outside every contract), so here the tree built for every path of the corpora
// is walked and those facts - plus what C12 / C14 / C15 say about the flags and texts of a finished tree - are checked.
// apiTreeOf repeats the steps of Parse to get at the root.

func apiTreeOf(path string, cfg Config) (root syntaxNode, err error) {
	parseMutex.Lock()
	defer func() {
		if ex := recover(); ex != nil {
			if e, ok := ex.(error); ok {
				err = e
			} else {
				err = fmt.Errorf("panic: %v", ex)
			}
		}
		parser.jsonPathParser = jsonPathParser{}
		parseMutex.Unlock()
	}()
	parser.Buffer = path
	if parser.parse == nil {
		parser.Init()
	} else {
		parser.Reset()
	}
	parser.jsonPathParser.unescapeRegex = unescapeRegex
	parser.jsonPathParser.filterFunctions = cfg.filterFunctions
	parser.jsonPathParser.aggregateFunctions = cfg.aggregateFunctions
	parser.jsonPathParser.accessorMode = cfg.accessorMode
	parser.Parse()
	parser.Execute()
	return parser.jsonPathParser.root, nil
}

type wfWalk struct {
	bad []string
	// noTexts > 0 inside a filter operand: its nodes get no remaining-path text (setConnectedText only walks the main
	// chain and aggregate parameters) and their errors are swallowed by the filter, so nothing is required of the texts
	noTexts int
}

func (w *wfWalk) fail(format string, a ...interface{}) {
	if len(w.bad) < 5 {
		w.bad = append(w.bad, fmt.Sprintf(format, a...))
	}
}

func wfBasicOf(n syntaxNode) *syntaxBasicNode {
	switch v := n.(type) {
	case *syntaxRootIdentifier:
		return v.syntaxBasicNode
	case *syntaxCurrentRootIdentifier:
		return v.syntaxBasicNode
	case *syntaxChildSingleIdentifier:
		return v.syntaxBasicNode
	case *syntaxChildWildcardIdentifier:
		return v.syntaxBasicNode
	case *syntaxChildMultiIdentifier:
		return v.syntaxBasicNode
	case *syntaxRecursiveChildIdentifier:
		return v.syntaxBasicNode
	case *syntaxUnionQualifier:
		return v.syntaxBasicNode
	case *syntaxFilterQualifier:
		return v.syntaxBasicNode
	case *syntaxFilterFunction:
		return v.syntaxBasicNode
	case *syntaxAggregateFunction:
		return v.syntaxBasicNode
	}
	return nil
}

// errCtx: a node that can report an error names itself and (unless it is an inner identifier of a multi-name selector,
// which never reports an error of its own) has a remaining-path text
func (w *wfWalk) errCtx(what string, b *syntaxBasicNode, inner bool) {
	if b.errorRuntime == nil || b.errorRuntime.node == nil {
		w.fail("%s has no error context", what)
		return
	}
	if b.errorRuntime.node != b {
		w.fail("%s reports errors in the name of another node", what)
	}
	if !inner && w.noTexts == 0 && len(b.connectedText) == 0 {
		w.fail("%s has an empty remaining-path text", what)
	}
	if !inner && len(b.text) == 0 {
		w.fail("%s has an empty text", what)
	}
}

// chain walks a next-chain: mode is the accessor flag every node on it must carry, postfix what follows its last node in
// the remaining-path texts.  It returns whether the chain is single-valued.
func (w *wfWalk) chain(head syntaxNode, mode bool, postfix string, depth int) (single bool) {
	if depth > 200 {
		w.fail("chain nesting deeper than 200")
		return
	}
	single = true
	anyGroup := false
	steps := 0
	for n := head; n != nil; n = wfBasicOf(n).next {
		steps++
		if steps > 10000 {
			w.fail("a chain does not end (cycle)")
			return
		}
		b := wfBasicOf(n)
		what := fmt.Sprintf("%T %q", n, "")
		if b == nil {
			w.fail("%T without a basic node", n)
			return
		}
		what = fmt.Sprintf("%T %q", n, b.text)
		if b.accessorMode != mode {
			w.fail("%s has accessor flag %v on a chain evaluated with %v", what, b.accessorMode, mode)
		}
		rest := postfix
		if b.next != nil {
			nb := wfBasicOf(b.next)
			if nb == nil {
				w.fail("%s is followed by a %T without a basic node", what, b.next)
				return
			}
			rest = nb.connectedText
		}
		if w.noTexts == 0 && b.connectedText != b.text+rest {
			w.fail("%s: remaining-path text %q is not its text followed by %q", what, b.connectedText, rest)
		}
		anyGroup = anyGroup || b.valueGroup
		switch v := n.(type) {
		case *syntaxRootIdentifier, *syntaxCurrentRootIdentifier:
			if n != head {
				w.fail("%s in the middle of a chain", what)
			}
		case *syntaxChildSingleIdentifier:
			w.errCtx(what, b, false)
		case *syntaxChildWildcardIdentifier:
			w.errCtx(what, b, false)
			single = false
		case *syntaxChildMultiIdentifier:
			w.errCtx(what, b, false)
			single = false
			if len(v.identifiers) < 2 {
				w.fail("%s has %d names", what, len(v.identifiers))
			}
			allWild := true
			for _, id := range v.identifiers {
				ib := wfBasicOf(id)
				if id == nil || ib == nil {
					w.fail("%s holds a nil identifier", what)
					continue
				}
				switch id.(type) {
				case *syntaxChildSingleIdentifier:
					allWild = false
				case *syntaxChildWildcardIdentifier:
				default:
					w.fail("%s holds a %T", what, id)
				}
				w.errCtx(what+" / inner "+ib.text, ib, true)
				if ib.accessorMode != mode {
					w.fail("%s: inner %s has accessor flag %v, the chain %v", what, ib.text, ib.accessorMode, mode)
				}
				if ib.next != b.next {
					w.fail("%s: inner %s is not followed by the selector's successor", what, ib.text)
				}
			}
			if allWild != v.isAllWildcard {
				w.fail("%s: all-wildcard flag %v, identifiers say %v", what, v.isAllWildcard, allWild)
			}
			if v.isAllWildcard {
				ub := v.unionQualifier.syntaxBasicNode
				if ub == nil {
					w.fail("%s: the union twin has no basic node", what)
				} else {
					w.errCtx(what+" / union twin", ub, false)
					if ub.accessorMode != mode || ub.next != b.next || (w.noTexts == 0 && ub.connectedText != b.connectedText) || ub.text != b.text {
						w.fail("%s: the union twin differs from the selector (flag, successor or texts)", what)
					}
					if len(v.unionQualifier.subscripts) != len(v.identifiers) {
						w.fail("%s: %d wildcards but %d subscripts in the union twin", what, len(v.identifiers), len(v.unionQualifier.subscripts))
					}
					for _, sub := range v.unionQualifier.subscripts {
						if _, ok := sub.(*syntaxWildcardSubscript); !ok {
							w.fail("%s: the union twin holds a %T", what, sub)
						}
					}
				}
			}
		case *syntaxRecursiveChildIdentifier:
			w.errCtx(what, b, false)
			single = false
			if b.next == nil {
				w.fail("%s without a successor", what)
			} else {
				wantMap, wantList := false, false
				switch b.next.(type) {
				case *syntaxChildWildcardIdentifier, *syntaxChildMultiIdentifier, *syntaxFilterQualifier:
					wantMap, wantList = true, true
				case *syntaxChildSingleIdentifier:
					wantMap = true
				case *syntaxUnionQualifier:
					wantList = true
				}
				if v.nextMapRequired != wantMap || v.nextListRequired != wantList {
					w.fail("%s before %T: visits objects %v / arrays %v", what, b.next, v.nextMapRequired, v.nextListRequired)
				}
			}
		case *syntaxUnionQualifier:
			w.errCtx(what, b, false)
			if len(v.subscripts) == 0 {
				w.fail("%s has no subscript", what)
			}
			group := len(v.subscripts) > 1
			for _, sub := range v.subscripts {
				switch sv := sub.(type) {
				case *syntaxIndexSubscript:
					if sv == nil || sv.syntaxBasicSubscript == nil {
						w.fail("%s holds an incomplete index", what)
					}
				case *syntaxSlicePositiveStepSubscript:
					group = true
					if sv == nil || sv.start == nil || sv.end == nil || sv.step == nil || sv.step.number < 0 {
						w.fail("%s holds an incomplete positive-step slice", what)
					}
				case *syntaxSliceNegativeStepSubscript:
					group = true
					if sv == nil || sv.start == nil || sv.end == nil || sv.step == nil || sv.step.number >= 0 {
						w.fail("%s holds an incomplete negative-step slice", what)
					}
				case *syntaxWildcardSubscript:
					group = true
				default:
					w.fail("%s holds a %T", what, sub)
				}
			}
			if group {
				single = false
			}
			if (n != head && b.valueGroup != group) || (group && !b.valueGroup) {
				// (the head of a chain also carries the flag of the whole chain)
				w.fail("%s: value-group flag %v, subscripts say %v", what, b.valueGroup, group)
			}
		case *syntaxFilterQualifier:
			w.errCtx(what, b, false)
			single = false
			if v.query == nil {
				w.fail("%s without a query", what)
			} else {
				w.noTexts++
				w.query(v.query, depth+1)
				w.noTexts--
			}
		case *syntaxFilterFunction:
			w.errCtx(what, b, false)
			if v.function == nil {
				w.fail("%s without a function", what)
			}
		case *syntaxAggregateFunction:
			w.errCtx(what, b, false)
			if v.function == nil {
				w.fail("%s without a function", what)
			}
			if n != head {
				w.fail("%s in the middle of a chain (an aggregate heads the chain, what precedes it is its parameter)", what)
			}
			if v.param == nil {
				w.fail("%s without a parameter path", what)
			} else {
				w.chain(v.param, false, b.connectedText, depth+1)
			}
			single = true
		default:
			w.fail("unknown node type %T", n)
		}
	}
	hb := wfBasicOf(head)
	if hb != nil {
		if _, isAgg := head.(*syntaxAggregateFunction); !isAgg && hb.valueGroup != anyGroup {
			w.fail("%T %q heads a chain whose value-group flag is %v but its steps say %v", head, hb.text, hb.valueGroup, anyGroup)
		}
		if !anyGroup && !single {
			w.fail("%T %q: chain is multi-valued by its step kinds but no step carries the value-group flag", head, hb.text)
		}
	}
	return single
}

func (w *wfWalk) query(q syntaxQuery, depth int) {
	if depth > 200 {
		w.fail("query nesting deeper than 200")
		return
	}
	switch v := q.(type) {
	case *syntaxLogicalAnd:
		if v.leftQuery == nil || v.rightQuery == nil {
			w.fail("&& with a missing operand")
			return
		}
		w.query(v.leftQuery, depth+1)
		w.query(v.rightQuery, depth+1)
	case *syntaxLogicalOr:
		if v.leftQuery == nil || v.rightQuery == nil {
			w.fail("|| with a missing operand")
			return
		}
		w.query(v.leftQuery, depth+1)
		w.query(v.rightQuery, depth+1)
	case *syntaxLogicalNot:
		if v.query == nil {
			w.fail("! without an operand")
			return
		}
		w.query(v.query, depth+1)
	case *syntaxBasicCompareQuery:
		if v.leftParam == nil || v.rightParam == nil || v.comparator == nil || v.leftParam.param == nil || v.rightParam.param == nil {
			w.fail("comparison with a missing operand or comparator")
			return
		}
		if !v.rightParam.isLiteral {
			w.fail("comparison whose right operand is neither a literal nor $-rooted")
		}
		_, lcur := v.leftParam.param.(*syntaxQueryParamCurrentRoot)
		_, rcur := v.rightParam.param.(*syntaxQueryParamCurrentRoot)
		if lcur && rcur {
			w.fail("comparison of two current-node operands")
		}
		for _, cp := range []*syntaxBasicCompareParameter{v.leftParam, v.rightParam} {
			switch pv := cp.param.(type) {
			case *syntaxQueryParamLiteral:
				if len(pv.literal) != 1 || pv.literal[0] == emptyEntity {
					w.fail("literal operand does not hold exactly one value")
				}
				if !cp.isLiteral {
					w.fail("literal operand not flagged as literal")
				}
			case *syntaxQueryParamRoot:
				if pv.param == nil {
					w.fail("$ operand without a path")
				} else if !w.chain(pv.param, false, "", depth+1) || wfBasicOf(pv.param).valueGroup {
					w.fail("$ operand of a comparison is multi-valued")
				}
				if !cp.isLiteral {
					w.fail("$ operand not flagged as constant")
				}
			case *syntaxQueryParamCurrentRoot:
				if pv.param == nil {
					w.fail("@ operand without a path")
				} else if !w.chain(pv.param, false, "", depth+1) || wfBasicOf(pv.param).valueGroup {
					w.fail("@ operand of a comparison is multi-valued")
				}
				if cp.isLiteral {
					w.fail("@ operand flagged as constant")
				}
			default:
				w.fail("comparison operand of type %T", cp.param)
			}
		}
		switch c := v.comparator.(type) {
		case *syntaxCompareDirectEQ:
			if c.syntaxTypeValidator == nil {
				w.fail("direct == without a type validator")
			}
			lit, ok := v.rightParam.param.(*syntaxQueryParamLiteral)
			if !ok {
				w.fail("direct == whose right operand is not a literal")
			} else if len(lit.literal) == 1 {
				want := ""
				switch lit.literal[0].(type) {
				case float64:
					want = "*jsonpath.syntaxBasicNumericTypeValidator"
				case string:
					want = "*jsonpath.syntaxBasicStringTypeValidator"
				case bool:
					want = "*jsonpath.syntaxBasicBoolTypeValidator"
				case nil:
					want = "*jsonpath.syntaxBasicNilTypeValidator"
				}
				if got := fmt.Sprintf("%T", c.syntaxTypeValidator); got != want {
					w.fail("direct == against %T uses %s", lit.literal[0], got)
				}
			}
		case *syntaxCompareDeepEQ:
			if _, ok := v.rightParam.param.(*syntaxQueryParamLiteral); ok {
				w.fail("deep == against a literal")
			}
		case *syntaxCompareGE, *syntaxCompareGT, *syntaxCompareLE, *syntaxCompareLT:
		case *syntaxCompareRegex:
			if c.regex == nil {
				w.fail("=~ without a compiled pattern")
			}
		default:
			w.fail("comparator of type %T", v.comparator)
		}
	case *syntaxQueryParamRoot:
		if v.param == nil {
			w.fail("$ filter without a path")
		} else {
			w.chain(v.param, false, "", depth+1)
		}
	case *syntaxQueryParamCurrentRoot:
		if v.param == nil {
			w.fail("@ filter without a path")
		} else {
			w.chain(v.param, false, "", depth+1)
		}
	default:
		w.fail("query of type %T", q)
	}
}

func apiCheckTree(t *testing.T, path string, cfg Config) bool {
	apiCount()
	root, err := apiTreeOf(path, cfg)
	if err != nil {
		return true
	}
	if root == nil {
		t.Errorf("REPRODUCED: tree monitor: %q parses to a nil root", path)
		return false
	}
	w := &wfWalk{}
	func() {
		defer func() {
			if r := recover(); r != nil {
				w.fail("walking the tree panicked: %v", r)
			}
		}()
		w.chain(root, cfg.accessorMode, "", 0)
	}()
	if len(w.bad) > 0 {
		t.Errorf("REPRODUCED: tree monitor: the tree built for %q (accessor mode %v) is not well formed: %s", path, cfg.accessorMode, strings.Join(w.bad, "; "))
		return false
	}
	return true
}

// apiCheckTrees: the monitor over the parse corpus, the C01 fragment and generated spellings, in both modes
func apiCheckTrees(t *testing.T) {
	paths, cfg := apiParseCorpus()
	acc := cfg
	acc.SetAccessorMode()
	pool := refPool()
	for _, a := range pool {
		paths = append(paths, refRender([]refStep{a}))
		for _, b := range pool {
			paths = append(paths, refRender([]refStep{a, b}), refRender([]refStep{a, b})+".g()", refRender([]refStep{a, b})+".f().g().f()")
		}
	}
	g := &spGen{r: rand.New(rand.NewSource(2))}
	n := 1500
	if apiThorough {
		n = 20000
	}
	for i := 0; i < n; i++ {
		steps := g.pathSteps()
		for k := range steps {
			if steps[k].kind == "func" {
				steps[k].key = map[string]string{"count": "g", "twice": "f"}[steps[k].key]
			}
		}
		paths = append(paths, (&sp{r: rand.New(rand.NewSource(int64(i)))}).steps(steps, "$", true))
	}
	for _, p := range paths {
		if !apiCheckTree(t, p, cfg) || !apiCheckTree(t, p, acc) {
			return
		}
	}
}

type apiStruct struct{ X int }

// C20: documents with non-JSON leaves
type apiFixed int

// statically comparable, dynamically not: == on two such values panics when Payload holds a slice, map or func
type apiBox struct {
	Name    string
	Payload interface{}
}

func (f apiFixed) Float64() (float64, error) { return float64(f) / 100, nil }

func apiForeignDocs() ([]interface{}, []string) {
	ch := make(chan int)
	fn := func() {}
	var np *int
	leaves := []interface{}{apiStruct{1}, &apiStruct{2}, map[string]int{"a": 1}, []int{1, 2}, 7, int64(7), uint8(1), np, fn, ch, struct{}{}, [2]int{1, 2},
		map[int]string{1: "a"}, []string{"a"}, json.Number("1"), float32(1.5), complex(1, 2), []interface{}{fn}, map[string]interface{}{"f": fn}, error(fmt.Errorf("e")), apiFixed(150), (*json.Number)(nil), new(apiFixed),
		apiBox{"b", []int{1, 2}}, apiBox{"m", map[string]int{"a": 1}}, [1]interface{}{[]int{1}}, apiBox{"f", fn}, &apiBox{"p", []int{1}}, apiBox{"i", 1}}
	var docs []interface{}
	var names []string
	for i, l := range leaves {
		docs = append(docs, map[string]interface{}{"ref": l, "list": []interface{}{map[string]interface{}{"v": l}, map[string]interface{}{"v": 1.0}}})
		names = append(names, fmt.Sprintf("a document with the same %T value under $.ref and $.list[0].v (leaf %d)", l, i))
		docs = append(docs, l, map[string]interface{}{"a": l, "b": 2.0}, []interface{}{l, map[string]interface{}{"a": l}, map[string]interface{}{"a": 1.0}},
			map[string]interface{}{"x": []interface{}{map[string]interface{}{"a": l}, map[string]interface{}{"a": "s"}}, "a": l})
		for k := 0; k < 4; k++ {
			names = append(names, fmt.Sprintf("a document with a %T leaf (shape %d, leaf %d)", l, k, i))
		}
	}
	return docs, names
}

func TestVerifReplay(t *testing.T) {
	var rec apiReplayRecord
	if data, err := os.ReadFile(os.Getenv("VERIF_REPLAY_FILE")); err == nil {
		_ = json.Unmarshal(data, &rec)
	}
	switch rec.Property {
	case "C04":
		apiCheckUnchanged(t)
	case "C05":
		apiCheckPure(t)
		if !t.Failed() {
			apiCheckUnchanged(t)
		}
		if !t.Failed() {
			apiCheckAfterLarge(t)
		}
	case "C06":
		apiCheckConcurrent(t)
		if !t.Failed() {
			apiCheckRegexConcurrent(t)
		}
		if !t.Failed() {
			apiCheckParked(t)
		}
		if !t.Failed() {
			apiCheckPure(t)
		}
	case "C02":
		apiCheckParseTotal(t)
		if !t.Failed() {
			apiCheckTrees(t)
		}
	case "C17":
		apiCheckGrammar(t)
	case "C19":
		apiCheckParseIndependent(t)
	case "C01", "C07":
		apiCheckSelect(t)
		if !t.Failed() {
			apiCheckBigDocs(t)
		}
		if !t.Failed() {
			apiCheckFunctions(t) // selection observed through a function that records what it is handed (null members included)
		}
	case "C08":
		apiCheckCompose(t)
		if !t.Failed() {
			apiCheckBigDocs(t)
		}
	case "C16":
		apiCheckKeys(t)
	case "C18":
		apiCheckSpellings(t)
	case "C14":
		apiCheckFunctions(t)
	case "C15":
		apiCheckErrors(t)
	case "C09", "C10":
		apiCheckFilters(t)
		if rec.Property == "C10" && !t.Failed() {
			apiCheckNumberSpellings(t)
		}
		if !t.Failed() {
			apiCheckDeepEquality(t)
		}
	case "C12", "C13":
		apiCheckAccessor(t)
	case "C20":
		docs, names := apiForeignDocs()
		apiCheckTotal(t, docs, names)
	default: // C03 and anything else: totality on JSON documents, with and without UseNumber
		var docs []interface{}
		var names []string
		for _, ds := range apiDocs() {
			docs = append(docs, apiDecode(ds))
			names = append(names, ds)
			dec := json.NewDecoder(strings.NewReader(ds))
			dec.UseNumber()
			var d interface{}
			_ = dec.Decode(&d)
			docs = append(docs, d)
			names = append(names, ds+" (UseNumber)")
		}
		apiCheckTotal(t, docs, names)
	}
	switch rec.Property {
	case "C01", "C07", "C08", "C12", "C14", "C15", "C03":
		// these lean on the assumed well-formedness of the parsed tree (links, flags, texts): the tree monitor runs with them
		if !t.Failed() {
			apiCheckTrees(t)
		}
	}
	_ = reflect.DeepEqual
	fmt.Printf("BOUNDED-CASES: %d\n", atomic.LoadInt64(&apiCases))
}
