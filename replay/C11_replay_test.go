package jsonpath

// Replay harness for C11 (injected with `go test -overlay`, never written into the repository).
// It rebuilds the verifier's counterexample (start/end/step/length) and runs the REAL getIndexes
// and the REAL Retrieve, comparing with an independent Python-slice reference over big integers.

import (
	"encoding/json"
	"fmt"
	"math/big"
	"os"
	"strconv"
	"strings"
	"testing"
)

type verifReplayRecord struct {
	Property   string            `json:"property"`
	Obligation string            `json:"obligation"`
	Fn         string            `json:"fn"`
	Values     map[string]string `json:"values"`
}

func verifInt(s string) (int, bool) {
	s = strings.TrimSpace(s)
	neg := false
	if strings.HasPrefix(s, "(-") {
		neg = true
		s = strings.TrimSpace(strings.TrimSuffix(strings.TrimPrefix(s, "(-"), ")"))
	}
	v, err := strconv.ParseInt(s, 10, 64)
	if err != nil {
		// -2^63 is printed as (- 9223372036854775808)
		if neg && s == "9223372036854775808" {
			return -9223372036854775808, true
		}
		return 0, false
	}
	if neg {
		v = -v
	}
	return int(v), true
}

// pyRef: the index sequence of a Python slice, nil for step 0.
func pyRef(n int, start, end, step int, so, eo bool) []int {
	if step == 0 {
		return nil
	}
	N := big.NewInt(int64(n))
	clamp := func(v int, omitted bool, def *big.Int, lo, hi *big.Int) *big.Int {
		if omitted {
			return def
		}
		x := big.NewInt(int64(v))
		if x.Sign() < 0 {
			x.Add(x, N)
			if x.Cmp(lo) < 0 {
				return lo
			}
			return x
		}
		if x.Cmp(hi) > 0 {
			return hi
		}
		return x
	}
	var out []int
	S := big.NewInt(int64(step))
	if step > 0 {
		a := clamp(start, so, big.NewInt(0), big.NewInt(0), N)
		b := clamp(end, eo, N, big.NewInt(0), N)
		for i := new(big.Int).Set(a); i.Cmp(b) < 0; i.Add(i, S) {
			out = append(out, int(i.Int64()))
		}
	} else {
		nm1 := new(big.Int).Sub(N, big.NewInt(1))
		a := clamp(start, so, nm1, big.NewInt(-1), nm1)
		b := clamp(end, eo, big.NewInt(-1), big.NewInt(-1), nm1)
		for i := new(big.Int).Set(a); i.Cmp(b) > 0; i.Add(i, S) {
			out = append(out, int(i.Int64()))
		}
	}
	return out
}

func verifGetIndexes(n, start, end, step int, so, eo bool) (res []int, panicked interface{}) {
	defer func() { panicked = recover() }()
	mk := func(v int, o bool) *syntaxIndexSubscript {
		return &syntaxIndexSubscript{syntaxBasicSubscript: &syntaxBasicSubscript{}, number: v, isOmitted: o}
	}
	if step >= 0 {
		s := &syntaxSlicePositiveStepSubscript{syntaxBasicSubscript: &syntaxBasicSubscript{valueGroup: true},
			start: mk(start, so), end: mk(end, eo), step: mk(step, false)}
		return s.getIndexes(n), nil
	}
	s := &syntaxSliceNegativeStepSubscript{syntaxBasicSubscript: &syntaxBasicSubscript{valueGroup: true},
		start: mk(start, so), end: mk(end, eo), step: mk(step, false)}
	return s.getIndexes(n), nil
}

func sameInts(a, b []int) bool {
	if len(a) != len(b) {
		return false
	}
	for i := range a {
		if a[i] != b[i] {
			return false
		}
	}
	return true
}

func verifSliceCase(t *testing.T, n, start, end, step int, so, eo bool) bool {
	want := pyRef(n, start, end, step, so, eo)
	got, p := verifGetIndexes(n, start, end, step, so, eo)
	bad := false
	if p != nil {
		t.Errorf("REPRODUCED: getIndexes(len=%d) start=%d(omitted=%v) end=%d(omitted=%v) step=%d panicked: %v", n, start, so, end, eo, step, p)
		bad = true
	} else if !sameInts(got, want) {
		t.Errorf("REPRODUCED: getIndexes(len=%d) start=%d(omitted=%v) end=%d(omitted=%v) step=%d = %v, Python slice gives %v", n, start, so, end, eo, step, got, want)
		bad = true
	}
	// the same through the public API
	if n <= 64 {
		doc := make([]interface{}, n)
		for i := range doc {
			doc[i] = float64(i)
		}
		str := func(v int, o bool) string {
			if o {
				return ""
			}
			return strconv.Itoa(v)
		}
		path := fmt.Sprintf("$[%s:%s:%d]", str(start, so), str(end, eo), step)
		func() {
			defer func() {
				if r := recover(); r != nil {
					t.Errorf("REPRODUCED: Retrieve(%q) on a %d-element array panicked: %v", path, n, r)
					bad = true
				}
			}()
			res, err := Retrieve(path, doc)
			var gotAPI []int
			for _, v := range res {
				gotAPI = append(gotAPI, int(v.(float64)))
			}
			if err != nil {
				if _, ok := err.(ErrorMemberNotExist); !ok || len(want) != 0 {
					t.Errorf("REPRODUCED: Retrieve(%q) on a %d-element array: error %v, Python slice gives %v", path, n, err, want)
					bad = true
				}
			} else if !sameInts(gotAPI, want) {
				t.Errorf("REPRODUCED: Retrieve(%q) on a %d-element array = %v, Python slice gives %v", path, n, gotAPI, want)
				bad = true
			}
		}()
	}
	return bad
}

func verifIndexCase(t *testing.T, n, number int) bool {
	var want []int
	if number >= 0 && number < n {
		want = []int{number}
	} else if number < 0 && n+number >= 0 && n+number < n {
		want = []int{n + number}
	}
	var got []int
	var p interface{}
	func() {
		defer func() { p = recover() }()
		got = (&syntaxIndexSubscript{syntaxBasicSubscript: &syntaxBasicSubscript{}, number: number}).getIndexes(n)
	}()
	if p != nil || !sameInts(got, want) {
		t.Errorf("REPRODUCED: index [%d] on length %d = %v (panic %v), expected %v", number, n, got, p, want)
		return true
	}
	return false
}

func TestVerifReplay(t *testing.T) {
	var rec verifReplayRecord
	if data, err := os.ReadFile(os.Getenv("VERIF_REPLAY_FILE")); err == nil {
		_ = json.Unmarshal(data, &rec)
	}
	get := func(k string) (int, bool) {
		if v, ok := rec.Values[k]; ok {
			return verifInt(v)
		}
		return 0, false
	}
	// 1. the verifier's model
	if n, ok := get("srcLength"); ok && n >= 0 && n <= 1<<20 {
		if num, ok := get("i.number"); ok && strings.Contains(rec.Fn, "syntaxIndexSubscript") {
			verifIndexCase(t, n, num)
		}
		st, ok1 := get("s.start.number")
		en, ok2 := get("s.end.number")
		sp, ok3 := get("s.step.number")
		if ok1 && ok2 && ok3 {
			so := rec.Values["s.start.isOmitted"] == "true"
			eo := rec.Values["s.end.isOmitted"] == "true"
			if strings.Contains(rec.Fn, "PositiveStep") == (sp >= 0) {
				verifSliceCase(t, n, st, en, sp, so, eo)
			}
		}
	}
	if t.Failed() {
		return
	}
	// 2. boundary corpus (the magnitudes the property names), in case the model was not replayable
	const maxI, minI = int(^uint(0) >> 1), -int(^uint(0)>>1) - 1
	for n := 0; n <= 4; n++ {
		vals := []int{0, 1, -1, 2, -2, 3, -3, n, -n, n + 1, -n - 1, 1 << 31, -(1 << 31), maxI, -maxI, minI}
		for _, sp := range vals {
			for _, st := range append([]int{0}, vals...) {
				for _, en := range append([]int{0}, vals...) {
					for _, om := range []int{0, 1, 2, 3} {
						if sp == 0 {
							continue
						}
						if verifSliceCase(t, n, st, en, sp, om&1 != 0, om&2 != 0) {
							return
						}
					}
				}
			}
		}
		for _, v := range vals {
			if verifIndexCase(t, n, v) {
				return
			}
		}
	}
}
